"""The single source of every decision of a simulated run.

`Chooser.choose(n, label)` returns an int in [0, n).  In search mode the values come
from one `random.Random` seeded from (VERIF_SEED, property, run index); in replay mode
they are read back from a recorded list and, once the list is exhausted, the answer is
always 0 ("first alternative / no fault / smallest size"), which is what makes shrinking
by truncation and zeroing meaningful.  Logging never draws from it.
"""

from __future__ import annotations

import hashlib
import random


def mix_seed(*parts) -> int:
    h = hashlib.sha256("/".join(str(p) for p in parts).encode()).digest()
    return int.from_bytes(h[:8], "big")


class Chooser:
    def __init__(self, seed: int | None = None, replay: list[int] | None = None):
        self.seed = seed
        self.replay = list(replay) if replay is not None else None
        self.pos = 0
        self.trace: list[int] = []
        self.labels: list[str] = []
        self.rng = random.Random(seed) if replay is None else None
        self.keep_labels = False

    def choose(self, n: int, label: str = "") -> int:
        if n <= 1:
            return 0
        if self.replay is not None:
            if self.pos < len(self.replay):
                v = self.replay[self.pos] % n
            else:
                v = 0
        else:
            v = self.rng.randrange(n)
        self.pos += 1
        self.trace.append(v)
        if self.keep_labels:
            self.labels.append(label)
        return v

    # conveniences -------------------------------------------------------------
    def chance(self, num: int, den: int, label: str = "") -> bool:
        """True with probability num/den; decision 0 means False (no fault)."""
        if num <= 0:
            return False
        if num >= den:
            return True
        # map so that value 0 => False
        return self.choose(den, label) >= den - num

    def pick(self, seq, label: str = ""):
        return seq[self.choose(len(seq), label)]

    def randint(self, lo: int, hi: int, label: str = "") -> int:
        return lo + self.choose(hi - lo + 1, label)

    def subset(self, seq, label: str = ""):
        return [x for x in seq if self.choose(2, label)]

    def shuffle(self, seq, label: str = ""):
        seq = list(seq)
        out = []
        while seq:
            out.append(seq.pop(self.choose(len(seq), label)))
        return out

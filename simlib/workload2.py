"""More workload definitions (kept in a separate module: editing workload.py while a check
is running changes what inspect.getsource returns for its functions, and with it the
source-based hashes pydra computes for them)."""

from __future__ import annotations

from pydra.compose import workflow

from . import rt as _rt
from .workload import Add, Chain2


@workflow.define
def Nest2(x: int) -> int:
    """a workflow whose first node is itself a workflow: inner = Chain2(x), c = Add(inner.out, 3)"""
    _rt.get().event("wf-body", f"Nest2|{x!r}")
    inner = workflow.add(Chain2(x=x), name="inner")
    c = workflow.add(Add(x=inner.out, k=3), name="c")
    return c.out


@workflow.define
def WfTwoPlanned(x: int, tag: str = "") -> int:
    """two independent nodes that fail according to the fault plan, and a join"""
    from .workload import Mul, Planned

    a = workflow.add(Planned(x=x, tag=tag), name="a")
    b = workflow.add(Planned(x=x + 1, tag=tag), name="b")
    c = workflow.add(Mul(x=a.out, y=b.out), name="c")
    return c.out


@workflow.define
def Par2(x: int) -> int:
    """two independent nodes and a join: a=Add(x,1), b=Add(x+1,1), c=Mul(a.out,b.out)"""
    from .workload import Mul

    _rt.get().event("wf-body", f"Par2|{x!r}")
    a = workflow.add(Add(x=x, k=1), name="a")
    b = workflow.add(Add(x=x + 1, k=1), name="b")
    c = workflow.add(Mul(x=a.out, y=b.out), name="c")
    return c.out

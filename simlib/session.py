"""One interpreter *session* of the sessim engine.

Run as:  PYTHONHASHSEED=<n> PYTHONPATH=/repo:/verif python -m simlib.session <program.json> <out.json>

The program is a JSON list of steps; results are written as JSON.  Value specs carry an
explicit element order which the session permutes with its own `perm` number, so that
insertion order of dicts/sets differs between sessions.
"""

from __future__ import annotations

import json
import os
import random
import sys
import traceback


def build(spec, rng):
    t = spec["t"]
    if t in ("int", "float", "str", "bool"):
        return spec["v"]
    if t == "none":
        return None
    if t == "bytes":
        return bytes.fromhex(spec["v"])
    if t == "path":
        from pathlib import Path

        return Path(spec["v"])
    if t in ("list", "tuple"):
        vals = [build(s, rng) for s in spec["v"]]
        return vals if t == "list" else tuple(vals)
    if t == "dict":
        items = list(spec["items"])
        rng.shuffle(items)
        return {build(k, rng): build(v, rng) for k, v in items}
    if t in ("set", "frozenset"):
        items = list(spec["v"])
        rng.shuffle(items)
        s = set()
        for it in items:
            s.add(build(it, rng))
        return s if t == "set" else frozenset(s)
    if t == "nd":
        import numpy as np

        return np.array(spec["data"], dtype=spec["dtype"]).reshape(spec["shape"])
    if t == "file":
        from fileformats.generic import File

        d = os.path.join(spec["dir"], f"s{os.getpid()}")
        os.makedirs(d, exist_ok=True)
        p = os.path.join(d, spec["name"])
        with open(p, "w") as f:
            f.write(spec["content"])
        # old enough for the persistent cache's resolution guard not to matter
        os.utime(p, (1_600_000_000, 1_600_000_000))
        return File(p)
    raise ValueError(t)


def make_task(tspec, rng):
    from simlib import workload

    k = tspec["kind"]
    if k == "describe":
        return workload.Describe(v=build(tspec["value"], rng))
    if k == "closure":  # nested function: cloudpickled by value
        return workload.make_closure_task(tspec["k"])(x=tspec["x"])
    if k == "xor":
        return workload.XorTask(a=tspec["a"], c=tspec["c"])
    if k == "two":
        return workload.Two(x=tspec["x"])
    if k == "wf":
        return workload.GenWf(spec=tspec["spec"], x=1, xs=[1, 2])
    raise ValueError(k)


def pub_state(sub):
    """public state of a submitter and its worker"""
    import attrs

    w = sub.worker
    wd = {a.name: getattr(w, a.name) for a in attrs.fields(type(w)) if a.name not in ("loop", "pool", "error") and not isinstance(getattr(w, a.name), dict)}
    return {
        "worker_type": type(w).__name__,
        "worker": {k: repr(v) for k, v in sorted(wd.items())},
        "cache_root": str(sub.cache_root),
        "readonly_caches": [str(p) for p in (sub.readonly_caches or [])],
        "max_concurrent": repr(sub.max_concurrent),
        "propagate_rerun": sub.propagate_rerun,
        "clean_stale_locks": sub.clean_stale_locks,
        "audit_flags": repr(sub.audit.audit_flags),
    }


def outputs_plain(out):
    import attrs
    from checks import wfcommon as wc

    return {a.name: wc.plain(getattr(out, a.name)) for a in attrs.fields(type(out)) if not a.name.startswith("_")}


def main():
    prog_path, out_path = sys.argv[1], sys.argv[2]
    with open(prog_path) as f:
        prog = json.load(f)
    import pydra.engine.job as j

    from simlib.paths import REPO

    assert j.__file__.startswith(REPO + "/"), j.__file__
    from pydra.engine.job import Job

    Job._etelemetry_version_data = {"stub": True}
    from pydra.utils.hash import hash_function
    from simlib import workload
    import cloudpickle as cp

    rng = random.Random(prog["perm"])
    evlog = prog.get("evlog")
    if evlog:
        os.environ["VERIF_EVLOG"] = evlog
    out = {"hashseed": os.environ.get("PYTHONHASHSEED"), "results": []}
    for step in prog["steps"]:
        r = {"id": step["id"]}
        try:
            kind = step["kind"]
            if kind == "hash":
                v = build(step["value"], rng)
                if step.get("roundtrip"):
                    v = cp.loads(cp.dumps(v))
                r["hash"] = str(hash_function(v))
            elif kind == "checksum":
                v = build(step["value"], rng)
                r["checksum"] = workload.Describe(v=v)._checksum
            elif kind == "xor-checksum":
                t = workload.XorTask(c=step["c"]).split(a=step["a"])
                r["hash"] = str(hash_function(t))
            elif kind == "submit":
                v = build(step["value"], rng)
                t = workload.Describe(v=v)
                res = t(cache_root=step["cache"], worker=step.get("worker", "debug"), **({"n_procs": 2} if step.get("worker") == "cf" else {}))
                r["out"] = res.out
                r["checksum"] = t._checksum
            elif kind == "submit-xor":
                t = workload.XorTask(c=step["c"]).split(a=step["a"])
                res = t(cache_root=step["cache"], worker="debug")
                r["out"] = list(res.out)
            elif kind == "submit-wf":
                from checks import wfcommon as wc

                t = workload.GenWf(spec=step["spec"], x=1, xs=[1, 2])
                res = t(cache_root=step["cache"], worker=step.get("worker", "debug"), **({"n_procs": 2} if step.get("worker") == "cf" else {}))
                r["out"] = wc.plain(res.out)
                r["checksum"] = t._checksum
            elif kind == "job-dump":
                from pydra.engine.submitter import Submitter
                from pydra.utils.messenger import AuditFlag

                task = make_task(step["task"], rng)
                kw = dict(step["submitter"])
                if kw.pop("audit", False):
                    kw["audit_flags"] = AuditFlag.PROV
                sub = Submitter(cache_root=step["cache"], **kw)
                hk = {}
                if step.get("hooks"):
                    from simlib import workload as _wl

                    hk = {"hooks": _wl.logging_hooks()}
                job = Job(task, submitter=sub, name="main", **hk)
                r["checksum"] = job.checksum
                r["state"] = pub_state(sub)
                r["state"]["hooks"] = {h: getattr(getattr(job.hooks, h), "__name__", "?") for h in ("pre_run", "pre_run_task", "post_run_task", "post_run")}
                with open(step["pkl"], "wb") as f:
                    cp.dump(job, f)
                # reference: the same task run in this session into another cache
                refkw = {"audit_flags": kw["audit_flags"]} if "audit_flags" in kw else {}
                try:
                    if hk:
                        refkw["hooks"] = _wl.logging_hooks()
                    ref = make_task(step["task"], random.Random(prog["perm"] + 1))(cache_root=step["refcache"], worker="debug", **refkw)
                    r["out"] = outputs_plain(ref)
                    if hk:
                        r["hooks_called"] = _wl.hooks_called(step["refcache"], r["checksum"])
                except Exception as e:  # the task cannot run with this configuration at all
                    r["ref_error"] = f"{type(e).__name__}: {str(e)[:150]}"
            elif kind == "job-load-run":
                from pydra.engine.job import load_and_run, load_job

                job = load_job(step["pkl"])
                r["checksum"] = job.checksum
                r["state"] = pub_state(job.submitter)
                r["state"]["hooks"] = {h: getattr(getattr(job.hooks, h), "__name__", "?") for h in ("pre_run", "pre_run_task", "post_run_task", "post_run")}
                from pathlib import Path

                load_and_run(Path(step["pkl"]))
                res = job.result()
                r["errored"] = bool(res.errored)
                r["out"] = outputs_plain(res.outputs)
                r["result_dir"] = str(job.cache_dir)
                if step.get("hooks"):
                    from simlib import workload as _wl

                    r["hooks_called"] = _wl.hooks_called(job.cache_root, r["checksum"])
            elif kind == "result-load":
                with open(os.path.join(step["result_dir"], "_result.pklz"), "rb") as f:
                    res = cp.load(f)
                r["errored"] = bool(res.errored)
                r["out"] = outputs_plain(res.outputs)
                r["task_checksum"] = res.task._checksum if res.task is not None else None
                j2 = res.job
                r["checksum"] = j2.checksum if j2 is not None else None
        except Exception as e:  # noqa: BLE001
            r["error"] = f"{type(e).__name__}: {str(e)[:200]}"
            r["tb"] = traceback.format_exc()[-600:]
        out["results"].append(r)
    with open(out_path, "w") as f:
        json.dump(out, f, default=repr)


if __name__ == "__main__":
    main()

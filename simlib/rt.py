"""Per-process simulation runtime and the monkeypatched seams.

Every simulated process (forked child, or the controller itself in the simloop engine)
has one runtime object in `rt.RT`.  The patched seams (`time.sleep`, `time.time`,
`open`, `os.open`, `os.stat` …) all go through it, so that a forked child only has to
replace `rt.RT` to redirect every seam to its own connection.

Nothing here is active unless the harness set NIPYPE_PYDRA_VERIF=1 itself.
"""

from __future__ import annotations

import builtins
import datetime as _dt
import io
import linecache
import os
import sys
import time as _time_mod
from zlib import crc32 as _crc32

GUARD = "NIPYPE_PYDRA_VERIF"
EPOCH = 1_700_000_000.0  # simulated clock origin (deterministic datetimes)

RT = None  # the runtime of *this* process
SPIN_CHILD = int(os.environ.get("VERIF_SPIN_CHILD", "0"))
SPIN_CTRL = int(os.environ.get("VERIF_SPIN_CTRL", "100"))

# real functions, captured before anything is patched
real_sleep = _time_mod.sleep
real_time = _time_mod.time
real_time_ns = _time_mod.time_ns
real_monotonic = _time_mod.monotonic
real_perf_counter = _time_mod.perf_counter
real_open = builtins.open
real_os_open = os.open
real_os_stat = os.stat
real_os_lstat = os.lstat
real_os_fstat = os.fstat

_installed = False


class NullRT:
    """Runtime of a process that is not simulated (plain reference runs)."""

    name = "plain"
    root = None
    chunk_writes = False
    simulated = False

    def now(self):
        return real_time()

    def sleep(self, dt):
        real_sleep(dt)

    def point(self, kind, label=""):
        pass

    def event(self, *data):
        # execution log for non-simulated processes: O_APPEND file, if configured
        path = os.environ.get("VERIF_EVLOG")
        if path:
            import json

            fd = real_os_open(path, os.O_WRONLY | os.O_APPEND | os.O_CREAT, 0o644)
            try:
                os.write(fd, (json.dumps([os.getpid(), *data]) + "\n").encode())
            finally:
                os.close(fd)

    def cuts(self, fname, n):
        return []


class RecRT(NullRT):
    """Non-simulated runtime that records workload events in memory (reference runs)."""

    name = "ref"

    def __init__(self):
        self.events = []

    def event(self, *data):
        self.events.append(("ref", data))


class SimHang(KeyboardInterrupt):
    """a single-process simulated run slept longer than its budget of simulated time"""


class SoloRT(RecRT):
    """Simulated runtime of a run that has no other actor: virtual clock, sleeps cost
    nothing, and sleeping for more than `limit` simulated seconds is a hang verdict
    (raised as SimHang) instead of a wall-clock timeout."""

    simulated = True
    name = "solo"
    root = None
    chunk_writes = False
    in_rt = False
    uuid_salt = "solo"

    def __init__(self, limit=300.0):
        super().__init__()
        self._now = EPOCH
        self.slept = 0.0
        self.limit = limit
        self.hung = False

    def now(self):
        return self._now

    def sleep(self, dt):
        dt = max(0.0, float(dt))
        self._now += dt
        self.slept += dt
        if self.slept > self.limit:
            self.hung = True
            raise SimHang(f"slept {self.slept:.0f} simulated seconds")


class ChildRT:
    """Runtime of a lockstep child: every seam is a message to the controller."""

    simulated = True

    def __init__(self, conn, name, cfg):
        self.conn = conn
        self.name = name
        self.cfg = cfg
        self._now = cfg.get("now", EPOCH)
        self.root = cfg.get("root")
        self.chunk_writes = cfg.get("chunk_writes", False)
        self.trace_files = cfg.get("trace_files", {})
        self.in_rt = False
        self._poll = None
        self.budget = 0  # points this process may pass without asking the controller
        self.npoints = 0
        self.phash = 0  # rolling hash of the labels of the points passed silently
        self.stop_kinds = cfg.get("stop_kinds", ("body",))  # always a scheduling point

    def now(self):
        return self._now

    def _wait_go(self):
        # hybrid wait: spin briefly (a blocking read costs ~50 us of wake-up latency in
        # this VM, a burst of consecutive steps gets its "go" within ~10 us), then block
        poll = self._poll
        if poll is None:
            import select

            poll = self._poll = select.poll()
            poll.register(self.conn.fileno(), select.POLLIN)
        for _ in range(SPIN_CHILD):
            if poll.poll(0):
                break
        msg = self.conn.recv()
        if msg[0] == "go":
            self._now = msg[1]
            self.budget = msg[2]
            return msg
        if msg[0] == "exit":
            os._exit(0)
        raise RuntimeError(f"unexpected controller message {msg!r}")

    def point(self, kind, label=""):
        if self.in_rt:
            return
        self.npoints += 1
        if self.budget > 0 and kind not in self.stop_kinds:
            # inside a burst granted by the controller: no scheduling decision here
            self.budget -= 1
            self.phash = _crc32(repr((kind, label)).encode(), self.phash)
            return
        self.in_rt = True
        try:
            self.conn.send(("pt", kind, label, self.npoints, self.phash))
            self._wait_go()
        finally:
            self.in_rt = False

    def sleep(self, dt):
        self.in_rt = True
        self.npoints += 1
        try:
            self.conn.send(("sleep", float(dt), self.npoints, self.phash))
            self._wait_go()
        finally:
            self.in_rt = False

    def event(self, *data):
        self.in_rt = True
        try:
            self.conn.send(("ev", data))
        finally:
            self.in_rt = False

    def cuts(self, fname, n):
        self.in_rt = True
        try:
            self.conn.send(("wr", fname, n))
            msg = self.conn.recv()
            assert msg[0] == "cuts", msg
            return msg[1]
        finally:
            self.in_rt = False


# ------------------------------------------------------------------ tracing


def make_tracer(trace_files: dict):
    """Line-event pre-emption points for code objects whose file is in trace_files
    (maps absolute filename -> short name)."""

    def local(frame, event, arg):
        if event == "line":
            rt = RT
            if rt is not None and not getattr(rt, "in_rt", False):
                code = frame.f_code
                rt.point(
                    "line", (trace_files[code.co_filename], code.co_name, frame.f_lineno)
                )
        return local

    def tracer(frame, event, arg):
        if frame.f_code.co_filename in trace_files:
            return local
        return None

    return tracer


def line_text(short_to_abs: dict, label) -> str:
    """Source text of a ("file","func",lineno) label (for readable fault traces)."""
    try:
        fn, func, lineno = label
        return f"{fn}:{func}: {linecache.getline(short_to_abs[fn], lineno).strip()}"
    except Exception:
        return str(label)


# ------------------------------------------------------------------ seams


def _sim_sleep(dt):
    RT.sleep(dt)


def _sim_time():
    return RT.now()


def _sim_time_ns():
    return int(RT.now() * 1e9)


class ChunkedWriter:
    """Unbuffered file whose write() is split at controller-chosen offsets with a
    pre-emption point before each chunk (so a crash or another process can observe the
    state between open("wb") and the last byte)."""

    def __init__(self, raw, fname, text=False, encoding="utf-8"):
        self._raw = raw
        self._fname = fname
        self._text = text
        self._enc = encoding
        self.closed = False

    def write(self, data):
        n_in = len(data)
        if self._text:
            data = data.encode(self._enc)
        data = bytes(data)
        rt = RT
        cuts = rt.cuts(self._fname, len(data)) if len(data) > 1 else []
        start = 0
        parts = []
        for c in cuts:
            parts.append(data[start:c])
            start = c
        parts.append(data[start:])
        for i, part in enumerate(parts):
            rt.point("wchunk", (self._fname, i, len(parts)))
            self._raw.write(part)
        return n_in

    def flush(self):
        pass

    def fileno(self):
        return self._raw.fileno()

    def close(self):
        if not self.closed:
            self.closed = True
            self._raw.close()

    def writable(self):
        return True

    def readable(self):
        return False

    def seekable(self):
        return False

    def __enter__(self):
        return self

    def __exit__(self, *exc):
        self.close()
        return False

    def writelines(self, lines):
        for ln in lines:
            self.write(ln)


def _sim_open(file, mode="r", *args, **kwargs):
    rt = RT
    if (
        rt is not None
        and rt.chunk_writes
        and rt.root
        and isinstance(mode, str)
        and ("w" in mode or "x" in mode)
        and not isinstance(file, int)
    ):
        p = os.fspath(file)
        if isinstance(p, str) and p.startswith(rt.root):
            base = os.path.basename(p)
            bmode = mode.replace("t", "")
            if "b" not in bmode:
                bmode += "b"
                text = True
            else:
                text = False
            raw = real_open(p, bmode, buffering=0)
            enc = kwargs.get("encoding") or "utf-8"
            return ChunkedWriter(raw, base, text=text, encoding=enc)
    return real_open(file, mode, *args, **kwargs)


def _is_lock(path) -> bool:
    try:
        p = os.fspath(path)
    except TypeError:
        return False
    if isinstance(p, bytes):
        return p.endswith(b".lock")
    return isinstance(p, str) and p.endswith(".lock")


_lock_fds: dict[int, str] = {}


def _stamp_fd(fd):
    now = RT.now()
    try:
        os.utime(fd, (now, now))
    except OSError:
        pass


def _sim_os_open(path, flags, mode=0o777, *, dir_fd=None):
    fd = real_os_open(path, flags, mode, dir_fd=dir_fd)
    if flags & os.O_CREAT and RT is not None and RT.simulated and _is_lock(path):
        # FS clock for lock files: the marker's mtime is simulated time
        _lock_fds[fd] = os.fspath(path)
        _stamp_fd(fd)
    else:
        _lock_fds.pop(fd, None)
    return fd


def _rebuild_stat(st):
    cls, (tup, dct) = st.__reduce__()
    tup = list(tup)
    # st_ctime := st_mtime (index 9 := 8); float/ns variants in dct
    tup[9] = tup[8]
    dct = dict(dct)
    dct["st_ctime"] = dct.get("st_mtime", float(tup[8]))
    if "st_mtime_ns" in dct:
        dct["st_ctime_ns"] = dct["st_mtime_ns"]
    return cls(tuple(tup), dct)


STAT_HOOK = None  # optional: fn(st) -> st, simulated FS clock for tracked inodes (C09)


def _sim_os_stat(path, *, dir_fd=None, follow_symlinks=True):
    st = real_os_stat(path, dir_fd=dir_fd, follow_symlinks=follow_symlinks)
    if STAT_HOOK is not None:
        st = STAT_HOOK(st)
    if RT is not None and RT.simulated and not isinstance(path, int) and _is_lock(path):
        return _rebuild_stat(st)
    return st


def _sim_os_lstat(path, *, dir_fd=None):
    st = real_os_lstat(path, dir_fd=dir_fd)
    if STAT_HOOK is not None:
        st = STAT_HOOK(st)
    if RT is not None and RT.simulated and _is_lock(path):
        return _rebuild_stat(st)
    return st


def _sim_os_fstat(fd):
    st = real_os_fstat(fd)
    if STAT_HOOK is not None:
        st = STAT_HOOK(st)
    if fd in _lock_fds and RT is not None and RT.simulated:
        return _rebuild_stat(st)
    return st


_uuid_counter = [0]


class _FakeUUID:
    def __init__(self, hexstr):
        self.hex = hexstr

    def __str__(self):
        h = self.hex
        return f"{h[:8]}-{h[8:12]}-{h[12:16]}-{h[16:20]}-{h[20:]}"


def _sim_uuid4():
    import hashlib

    _uuid_counter[0] += 1
    rt = RT
    h = hashlib.sha256(
        f"{getattr(rt, 'uuid_salt', '')}/{rt.name}/{_uuid_counter[0]}".encode()
    ).hexdigest()[:32]
    return _FakeUUID(h)


def restamp(st, mtime_ns, ctime_ns):
    """os.stat_result with replaced modification / change times"""
    cls, (tup, dct) = st.__reduce__()
    tup = list(tup)
    tup[8] = mtime_ns // 1_000_000_000
    tup[9] = ctime_ns // 1_000_000_000
    dct = dict(dct)
    dct["st_mtime"] = mtime_ns / 1e9
    dct["st_ctime"] = ctime_ns / 1e9
    dct["st_mtime_ns"] = mtime_ns
    dct["st_ctime_ns"] = ctime_ns
    return cls(tuple(tup), dct)


class SimDateTime(_dt.datetime):
    """datetime whose now() reads the simulated clock.  Module-level on purpose: a
    class local to a function would be cloudpickled *by value* together with the
    globals it references (the runtime and its connection)."""

    @classmethod
    def now(cls, tz=None):
        return cls.fromtimestamp(get().now(), tz)

    @classmethod
    def utcnow(cls):
        return cls.utcfromtimestamp(get().now())


def install(rt, *, patch_time=True):
    """Install the seams in this process (idempotent) and set the runtime."""
    global RT, _installed
    if os.environ.get(GUARD) != "1":
        raise RuntimeError(f"{GUARD}=1 not set: refusing to monkeypatch")
    RT = rt
    if _installed:
        return
    _installed = True
    if patch_time:
        _time_mod.sleep = _sim_sleep
        _time_mod.time = _sim_time
        _time_mod.time_ns = _sim_time_ns
        _time_mod.monotonic = _sim_time
        _time_mod.perf_counter = _sim_time
    builtins.open = _sim_open
    io.open = _sim_open
    os.open = _sim_os_open
    os.stat = _sim_os_stat
    os.lstat = _sim_os_lstat
    os.fstat = _sim_os_fstat

    # filelock writes its marker after O_EXCL creation; re-stamp afterwards so the
    # marker's mtime stays on the simulated clock
    import filelock._soft as _soft
    import filelock._util as _util

    _real_write_all = _util.write_all

    def _write_all(fd, data):
        r = _real_write_all(fd, data)
        if fd in _lock_fds and RT is not None and RT.simulated:
            _stamp_fd(fd)
        return r

    _soft.write_all = _write_all

    import pydra.engine.submitter as _sub
    import pydra.engine.job as _job

    import pydra.utils.hash as _hash

    _hash.datetime = SimDateTime
    _sub.datetime = SimDateTime
    _job.datetime = SimDateTime
    _job.uuid4 = _sim_uuid4
    import pydra.utils.messenger as _msg
    import pydra.engine.audit as _audit

    _real_gen_uuid = _msg.gen_uuid

    def _gen_uuid():
        if RT is not None and RT.simulated:
            return _sim_uuid4().hex
        return _real_gen_uuid()

    _msg.gen_uuid = _gen_uuid
    _audit.gen_uuid = _gen_uuid


def set_rt(rt):
    global RT
    RT = rt


def get():
    global RT
    if RT is None:
        RT = NullRT()
    return RT

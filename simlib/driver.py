"""Parallel, seeded driver shared by all checks.

A check module provides
    PROP, LEVEL, ENGINE, RULE, COMPONENTS, ASSUMPTIONS
    plan(tier, seed)            -> list of JSON-able case dicts
    run_case(case, ch, workdir) -> result dict (see `blank_result`)
Each case is executed in its own forked process (fresh process-global pydra state),
under a wall-clock watchdog; its decisions come from Chooser(mix(seed, prop, case id)).

exit 0: everything explored, no unlisted violation
exit 1: "VIOLATION property=<id> replay=<path>" (confirmed by replay, shrunk)
exit 2: harness error / nondeterminism / wall timeout (never a pass, never a violation)
"""

from __future__ import annotations

import json
import multiprocessing as mp
import multiprocessing.connection as mpc
import os
import shutil
import signal
import subprocess
import sys
import time
import traceback

from .chooser import Chooser, mix_seed
from .paths import REPO

VERIF = os.path.dirname(os.path.dirname(os.path.abspath(__file__)))
SHM = "/dev/shm/pv"
GUARD = "NIPYPE_PYDRA_VERIF"


def blank_result():
    return {
        "digest": "",
        "nontrivial": False,
        "faults": {},
        "probes": {},
        "sim_s": 0.0,
        "steps": 0,
        "sample": None,
        "violations": [],  # {"clause":..., "sig":..., "detail":...}
        "harness_error": None,
        "fault_trace": [],
    }


def violation(res, clause, sig, detail):
    res["violations"].append({"clause": clause, "sig": sig, "detail": str(detail)[: int(os.environ.get("VERIF_DETAIL_MAX", "1500"))]})


# --------------------------------------------------------------------------- env


def ensure_env():
    """Re-exec once with a pinned environment."""
    want = {
        "PYTHONHASHSEED": os.environ.get("VERIF_HASHSEED", "0"),
        GUARD: "1",
        "PYTHONDONTWRITEBYTECODE": "1",
    }
    pp = os.environ.get("PYTHONPATH", "").split(":")
    if pp[:2] != [REPO, VERIF]:
        want["PYTHONPATH"] = REPO + ":" + VERIF
    if any(os.environ.get(k) != v for k, v in want.items()):
        env = dict(os.environ)
        env.update(want)
        env.setdefault("PYDRA_VERIF_REEXEC", "0")
        if env["PYDRA_VERIF_REEXEC"] == "1":
            raise RuntimeError("re-exec loop")
        env["PYDRA_VERIF_REEXEC"] = "1"
        os.execve(sys.executable, [sys.executable] + sys.argv, env)


def warm():
    """Import pydra from /repo, assert it, run one task to warm lazy imports."""
    import pydra  # noqa: F401
    import pydra.engine.job
    import pydra.engine.submitter
    import pydra.workers.cf
    import pydra.workers.debug
    from pydra.engine.job import Job

    Job._etelemetry_version_data = {"stub": True}  # network version check -> constant
    bad = [
        (n, getattr(m, "__file__", ""))
        for n, m in list(sys.modules.items())
        if n.startswith("pydra.")
        and getattr(m, "__file__", None)
        and not m.__file__.startswith(REPO + "/")
    ]
    if bad:
        raise RuntimeError(f"pydra modules not loaded from {REPO}: {bad[:3]}")
    from . import workload

    d = os.path.join(SHM, f"warm-{os.getpid()}")
    shutil.rmtree(d, ignore_errors=True)
    os.makedirs(d)
    try:
        workload.Add(x=1)(cache_root=d, worker="debug")
        workload.Chain2(x=1)(cache_root=d, worker="debug")
    finally:
        shutil.rmtree(d, ignore_errors=True)


# --------------------------------------------------------------------------- one case


class WallTimeout(BaseException):
    """real-time watchdog of a case: never a verdict (re-raised by every catch-all)"""


def _alarm(signum, frame):
    raise WallTimeout()


def case_id(case):
    return case.get("id", json.dumps(case, sort_keys=True))


def run_isolated(mod, case, seed, trace=None, wall=90, nonce="x"):
    """Run one case in this process (process creation is the scarce resource in this
    sandbox, so there is no fork per case: simulated nodes are persistent actors and
    process-global pydra state is reset between cases).  Always returns a dict."""
    from . import lockstep

    cid = case_id(case)
    h = f"{mix_seed(nonce, seed, mod.PROP, cid) & 0xFFFFFFFF:08x}"
    workdir = os.path.join(SHM, f"{os.getpid() % 100000:05d}{h}")
    shutil.rmtree(workdir, ignore_errors=True)
    os.makedirs(workdir)
    ch = Chooser(replay=trace) if trace is not None else Chooser(seed=mix_seed(seed, mod.PROP, cid))
    old = signal.signal(signal.SIGALRM, _alarm)
    signal.setitimer(signal.ITIMER_REAL, wall)
    try:
        try:
            lockstep.reset_state()
            res = mod.run_case(case, ch, workdir)
        except WallTimeout:
            res = blank_result()
            res["harness_error"] = "wall-timeout"
        except BaseException:  # noqa: BLE001
            res = blank_result()
            res["harness_error"] = traceback.format_exc()[-3000:]
        finally:
            signal.setitimer(signal.ITIMER_REAL, 0)
        if res["harness_error"]:
            try:
                lockstep.POOL.close()
            except Exception:
                pass
    finally:
        signal.signal(signal.SIGALRM, old)
        try:
            os.chdir("/")
        except OSError:
            pass
        shutil.rmtree(workdir, ignore_errors=True)
    res["trace"] = list(ch.trace)
    return res


def _worker_loop(mod, conn, seed, nonce, wall):
    signal.signal(signal.SIGINT, signal.SIG_DFL)
    from . import lockstep

    lockstep.warm_process()
    while True:
        msg = conn.recv()
        if msg is None:
            break
        idx, case, trace = msg
        res = run_isolated(mod, case, seed, trace=trace, wall=wall, nonce=nonce)
        conn.send((idx, res))
    from . import lockstep

    lockstep.POOL.close()
    os._exit(0)


def run_many(mod, cases, seed, jobs, wall=90, nonce="x", traces=None, progress=None):
    """Run all cases on `jobs` forked workers; returns results in case order."""
    results = [None] * len(cases)
    if not cases:
        return results
    jobs = max(1, min(jobs, len(cases)))
    workers = []
    for _ in range(jobs):
        a, b = mp.Pipe()
        sys.stdout.flush()
        pid = os.fork()
        if pid == 0:
            a.close()
            for pa, _pid in workers:
                pa.close()
            try:
                _worker_loop(mod, b, seed, nonce, wall)
            finally:
                os._exit(0)
        b.close()
        workers.append((a, pid))
    nxt = 0
    busy = {}
    try:
        for a, pid in workers:
            if nxt < len(cases):
                a.send((nxt, cases[nxt], traces[nxt] if traces else None))
                busy[a] = nxt
                nxt += 1
        while busy:
            for a in mpc.wait(list(busy), timeout=wall + 60):
                try:
                    idx, res = a.recv()
                except (EOFError, OSError):
                    idx = busy[a]
                    res = blank_result()
                    res["harness_error"] = "driver worker died"
                    res["trace"] = []
                    del busy[a]
                    results[idx] = res
                    continue
                results[idx] = res
                if progress:
                    progress(idx, res)
                if nxt < len(cases):
                    a.send((nxt, cases[nxt], traces[nxt] if traces else None))
                    busy[a] = nxt
                    nxt += 1
                else:
                    del busy[a]
    finally:
        for a, pid in workers:
            try:
                a.send(None)
            except Exception:
                pass
        for a, pid in workers:
            try:
                os.waitpid(pid, 0)
            except ChildProcessError:
                pass
            a.close()
    for i, r in enumerate(results):
        if r is None:
            r = blank_result()
            r["harness_error"] = "no result"
            r["trace"] = []
            results[i] = r
    return results


# --------------------------------------------------------------------------- findings


def load_known():
    p = os.path.join(VERIF, "known_findings.json")
    if not os.path.exists(p):
        return []
    with open(p) as f:
        return json.load(f).get("findings", [])


def match_known(known, prop, v):
    for k in known:
        if k["property"] == prop and k["clause"] == v["clause"] and k["sig"] == v["sig"]:
            return k
    return None


# --------------------------------------------------------------------------- shrinking


def _has(res, clause, sig):
    return any(v["clause"] == clause and v["sig"] == sig for v in res["violations"])


def shrink(mod, case, seed, trace, clause, sig, wall, budget=40, deadline=90.0):
    """Delta-debug the decision trace, keeping candidates that fail the same clause."""
    t0 = time.time()
    best = list(trace)
    tries = 0

    def test(cand):
        nonlocal tries
        tries += 1
        r = run_isolated(mod, case, seed, trace=cand, wall=wall, nonce="shrink")
        return _has(r, clause, sig), r

    # strip trailing decisions (replay answers 0 past the end)
    n = len(best)
    cut = n // 2
    while cut >= 1 and tries < budget and time.time() - t0 < deadline:
        cand = best[: len(best) - cut]
        ok, r = test(cand)
        if ok:
            best = r["trace"][: len(cand)] if len(r["trace"]) >= len(cand) else cand
            best = cand
        else:
            cut //= 2
        if cut > len(best):
            cut = len(best) // 2
    # zero blocks
    size = max(1, len(best) // 4)
    while size >= 1 and tries < budget and time.time() - t0 < deadline:
        i = 0
        progressed = False
        while i < len(best) and tries < budget and time.time() - t0 < deadline:
            if any(best[i : i + size]):
                cand = best[:i] + [0] * min(size, len(best) - i) + best[i + size :]
                ok, _ = test(cand)
                if ok:
                    best = cand
                    progressed = True
            i += size
        if not progressed:
            size //= 2
    while best and best[-1] == 0:
        best.pop()
    return best, tries


# --------------------------------------------------------------------------- main


def _selftest_fresh(mod_name, case, seed, hashseed):
    """Digest of one case computed by a fresh interpreter under another hash seed."""
    env = dict(os.environ)
    # same pinned hash seed: pydra itself iterates over sets of strings (e.g. in
    # NodeExecution._split_task), so the controller's line sequence, and with it the
    # schedule, legitimately depends on PYTHONHASHSEED; every run and replay pins it.
    env["VERIF_HASHSEED"] = os.environ.get("VERIF_HASHSEED", "0")
    env["PYTHONHASHSEED"] = env["VERIF_HASHSEED"]
    env["PYDRA_VERIF_REEXEC"] = "0"
    env["VERIF_SEED"] = str(seed)
    p = subprocess.run(
        [sys.executable, os.path.join(VERIF, "vcheck.py"), mod_name, "--one", json.dumps(case)],
        env=env,
        capture_output=True,
        text=True,
        timeout=600,
    )
    for line in p.stdout.splitlines():
        if line.startswith("ONE "):
            return json.loads(line[4:])
    return {"digest": None, "err": (p.stdout + p.stderr)[-800:]}


def main(mod, argv):
    import argparse

    ap = argparse.ArgumentParser()
    ap.add_argument("--tier", default=os.environ.get("VERIF_TIER", "quick"))
    ap.add_argument("--replay")
    ap.add_argument("--one")
    ap.add_argument("--jobs", type=int, default=int(os.environ.get("VERIF_JOBS", "0")) or min(8, os.cpu_count() or 4))
    ap.add_argument("--cases", type=int, default=0, help="override number of cases")
    ap.add_argument("--no-selftest", action="store_true")
    args = ap.parse_args(argv)
    seed = int(os.environ.get("VERIF_SEED", "0") or 0)
    prop = mod.PROP
    os.makedirs(SHM, exist_ok=True)
    import faulthandler

    faulthandler.register(signal.SIGUSR1, all_threads=True)  # kill -USR1 <pid> dumps the stacks
    # never share pydra's per-user persistent hash cache with other processes
    hc_dir = os.path.join(SHM, f"hashcache-{os.getpid()}")
    os.makedirs(hc_dir, exist_ok=True)
    os.environ["PYDRA_HASH_CACHE"] = hc_dir
    import atexit

    atexit.register(shutil.rmtree, hc_dir, True)
    warm()
    # install the seams once, up front, with a pass-through runtime: checks switch
    # runtimes (simulated / recording) but never re-patch
    from . import rt as _rt

    _rt.install(_rt.NullRT())
    wall = getattr(mod, "CASE_WALL", 240)
    nonce = f"{os.getpid()}-{time.time_ns()}"
    mod_name = mod.__name__.split(".")[-1]

    if args.one:
        case = json.loads(args.one)
        res = run_isolated(mod, case, seed, wall=wall, nonce=nonce)
        print("ONE " + json.dumps({"digest": res["digest"], "trace_len": len(res["trace"]), "herr": res["harness_error"], "viol": [(v["clause"], v["sig"]) for v in res["violations"]]}))
        return 0

    if args.replay:
        with open(args.replay) as f:
            rep = json.load(f)
        res = run_isolated(mod, rep["case"], rep["seed"], trace=rep["trace"], wall=wall, nonce=nonce)
        if res["harness_error"]:
            print("HARNESS-ERROR", res["harness_error"])
            return 2
        hit = [v for v in res["violations"] if v["clause"] == rep["clause"] and v["sig"] == rep["sig"]]
        for v in res["violations"]:
            print(f"replayed violation clause={v['clause']} sig={v['sig']}: {v['detail'][:400]}")
        for ft in res.get("fault_trace", []):
            print("  fault:", ft)
        print(f"digest={res['digest']} recorded={rep.get('digest')}")
        if hit:
            print(f"VIOLATION property={prop} replay={args.replay}")
            return 1
        print("replay did not reproduce the recorded violation")
        return 0

    t0 = time.time()
    tier = args.tier
    cases = mod.plan(tier, seed)
    if args.cases:
        cases = cases[: args.cases]
    for i, c in enumerate(cases):
        c.setdefault("id", f"{i}")
    if not os.environ.get("VERIF_JOBS") and "--jobs" not in " ".join(argv):
        args.jobs = getattr(mod, "JOBS", args.jobs)
    results = run_many(mod, cases, seed, args.jobs, wall=wall, nonce=nonce)
    t_run = time.time() - t0
    if os.environ.get("VERIF_DUMP"):
        with open(os.environ["VERIF_DUMP"], "w") as f:
            for c, r in zip(cases, results):
                f.write(json.dumps([c["id"], r["digest"], r["steps"], len(r["trace"]), r["sample"]]) + "\n")

    herrs = [(c, r) for c, r in zip(cases, results) if r["harness_error"]]
    # determinism self-test: same seed again (other worker), and in a fresh
    # interpreter under another PYTHONHASHSEED
    det = {"pairs": 0, "mismatches": 0, "fresh_interpreter_pairs": 0}
    mismatch = []
    if not args.no_selftest and cases:
        k = {"quick": 6, "thorough": 24}.get(tier, 6)
        stride = max(1, len(cases) // k)
        sample_idx = list(range(0, len(cases), stride))[:k]
        again = run_many(mod, [cases[i] for i in sample_idx], seed, max(1, min(args.jobs, 3)), wall=wall, nonce=nonce + "b")
        for i, r2 in zip(sample_idx, again):
            det["pairs"] += 1
            if r2["digest"] != results[i]["digest"] or r2["trace"] != results[i]["trace"]:
                det["mismatches"] += 1
                mismatch.append((cases[i], results[i]["digest"], r2["digest"]))
        nfresh = {"quick": 2, "thorough": 6}.get(tier, 2)
        if getattr(mod, "FRESH_SELFTEST", True):
            from concurrent.futures import ThreadPoolExecutor

            idxs = sample_idx[:nfresh]
            with ThreadPoolExecutor(len(idxs) or 1) as ex:
                outs = list(ex.map(lambda i: _selftest_fresh(mod_name, cases[i], seed, 12345 + i), idxs))
            for i, o in zip(idxs, outs):
                det["pairs"] += 1
                det["fresh_interpreter_pairs"] += 1
                if o.get("digest") != results[i]["digest"]:
                    det["mismatches"] += 1
                    mismatch.append((cases[i], results[i]["digest"], o))

    # violations
    known = load_known()
    groups = {}
    for idx, (c, r) in enumerate(zip(cases, results)):
        for v in r["violations"]:
            groups.setdefault((v["clause"], v["sig"]), []).append((idx, v))
    known_seen = []
    new_viol = []
    for (clause, sig), items in sorted(groups.items()):
        k = match_known(known, prop, {"clause": clause, "sig": sig})
        if k is not None:
            known_seen.append((k, len(items)))
        else:
            new_viol.append(((clause, sig), items))
    exit_code = 0
    out_lines = []
    replays = []
    if new_viol:
        print("violation groups (clause/sig: cases): " + "; ".join(f"{c}/{g}: {len(it)}" for (c, g), it in new_viol))
    for (clause, sig), items in new_viol[:12]:
        idx, v = items[0]
        case, res = cases[idx], results[idx]
        conf = run_isolated(mod, case, seed, trace=res["trace"], wall=wall, nonce=nonce + "c")
        if not _has(conf, clause, sig):
            herrs.append((case, {"harness_error": f"violation {clause}/{sig} did not reproduce on replay: {v['detail'][:300]}"}))
            continue
        small, tries = shrink(mod, case, seed, res["trace"], clause, sig, wall,
                              budget=getattr(mod, "SHRINK_BUDGET", 40))
        final = run_isolated(mod, case, seed, trace=small, wall=wall, nonce=nonce + "d")
        if not _has(final, clause, sig):
            small, final = res["trace"], conf
        os.makedirs(os.path.join(VERIF, "replays"), exist_ok=True)
        safe = "".join(ch if ch.isalnum() else "_" for ch in f"{clause}-{sig}")[:60]
        path = os.path.join(VERIF, "replays", f"{prop}-{seed}-{case['id']}-{safe}.json")
        vv = [x for x in final["violations"] if x["clause"] == clause and x["sig"] == sig][0]
        with open(path, "w") as f:
            json.dump(
                {
                    "property": prop,
                    "engine": mod.ENGINE,
                    "seed": seed,
                    "case": case,
                    "clause": clause,
                    "sig": sig,
                    "detail": vv["detail"],
                    "trace": small,
                    "original_trace_len": len(res["trace"]),
                    "shrink_tries": tries,
                    "fault_trace": final.get("fault_trace", []),
                    "digest": final["digest"],
                    "occurrences_in_batch": len(items),
                },
                f,
                indent=1,
            )
        replays.append(path)
        out_lines.append(f"VIOLATION property={prop} replay={path}")
        print(f"  clause={clause} sig={sig} cases={len(items)} detail={vv['detail'][:300]}")
        exit_code = 1
    for k, n in known_seen:
        print(f"KNOWN-FINDING: property={prop} {k['clause']}/{k['sig']}: {k.get('what', '')} (seen in {n} runs)")

    # evidence
    faults, probes = {}, {}
    sim_s = 0.0
    steps = 0
    digests = set()
    for r in results:
        for kx, vx in r["faults"].items():
            faults[kx] = faults.get(kx, 0) + vx
        for kx, vx in r["probes"].items():
            probes[kx] = probes.get(kx, 0) + vx
        sim_s += r["sim_s"]
        steps += r["steps"]
        if r["nontrivial"] and r["digest"]:
            digests.add(r["digest"])
    wall_s = time.time() - t0
    samples = [r["sample"] for r in results if r["sample"] is not None][:: max(1, len(results) // 5)][:5]
    extra = mod.summarize(cases, results) if hasattr(mod, "summarize") else {}
    cov = {
        "evaluations": len(results),
        "distinct_nontrivial": len(digests),
        "rule": mod.RULE,
        "samples": samples or [cases[0]],
        "exhaustive": bool(extra.pop("exhaustive", False)),
        "runs_per_hour": round(len(results) / max(t_run, 1e-6) * 3600),
        "seeds_per_hour": round(len(results) / max(t_run, 1e-6) * 3600),
        "simulated_seconds": round(sim_s, 3),
        "scheduler_steps": steps,
        "faults_fired": faults,
        "probes": probes,
        "probes_stuck_at_zero": [p for p in getattr(mod, "PROBES", []) if not probes.get(p)],
        "determinism_selftest": det,
        "components": mod.COMPONENTS,
        "known_findings_observed": [f"{k['clause']}/{k['sig']} x{n}" for k, n in known_seen],
        "harness_errors": len(herrs),
        "replays": replays,
    }
    cov.update(extra)
    ev = {
        "property_id": prop,
        "tier": tier if tier in ("quick", "thorough") else "quick",
        "seed": seed,
        "level": mod.LEVEL,
        "coverage": cov,
        "assumptions": mod.ASSUMPTIONS,
        "wall_s": round(wall_s, 2),
        "violations": len(new_viol),
    }
    if not os.environ.get("VERIF_NO_EVIDENCE"):  # partial runs of tools/ do not overwrite evidence
        os.makedirs(os.path.join(VERIF, "evidence"), exist_ok=True)
        with open(os.path.join(VERIF, "evidence", f"{prop}.json"), "w") as f:
            json.dump(ev, f, indent=1, default=str)
    print(
        f"{prop} tier={tier} seed={seed} runs={len(results)} distinct_nontrivial={len(digests)} "
        f"faults={faults} wall={wall_s:.1f}s sim={sim_s:.0f}s selftest={det}"
    )
    if herrs or det["mismatches"]:
        for c, r in herrs[:5]:
            print("HARNESS-ERROR case", c.get("id"), str(r["harness_error"])[-1200:])
        for c, d1, d2 in mismatch[:5]:
            print("HARNESS-NONDETERMINISM case", c.get("id"), d1, d2)
        for ln in out_lines:
            print(ln)
        return 1 if exit_code == 1 else 2
    for ln in out_lines:
        print(ln)
    return exit_code

"""Fake SLURM / SGE for the simloop engine.

`asyncio.create_subprocess_exec` (looked up at call time by
`pydra.workers.base.read_and_display_async`) is replaced by `FakeCluster.exec`, which
returns a process object whose stdout/stderr are real `asyncio.StreamReader`s fed with the
scheduler's answer, so `read_and_display_async` / `read_stream_and_display` run for real.

A submitted batch script is executed the way the scheduler would: the python payload is
extracted with POSIX shell rules and run in a lockstep actor (real `load_and_run`), its
stderr goes to the job's error file.  Every job follows a Chooser-generated life
(PENDING .. RUNNING .. verdict), in simulated time.
"""

from __future__ import annotations

import asyncio
import os
import re
import shlex
import sys
import traceback

from . import rt as _rt


class FakeProc:
    def __init__(self, loop, rc, out, err):
        self.returncode = None
        self._rc = rc
        self.stdout = asyncio.StreamReader(loop=loop)
        self.stderr = asyncio.StreamReader(loop=loop)
        self.stdout.feed_data(out.encode())
        self.stdout.feed_eof()
        self.stderr.feed_data(err.encode())
        self.stderr.feed_eof()

    async def wait(self):
        self.returncode = self._rc
        return self._rc

    def kill(self):
        pass


def _payload(code, argv, stderr_path):
    """what `python -c code argv...` / `python file argv...` does on the compute node"""
    import io

    old_argv = sys.argv
    sys.argv = ["-c"] + list(argv)
    rc = 0
    try:
        try:
            exec(compile(code, "<batch payload>", "exec"), {"__name__": "__main__"})
        except SystemExit as e:
            rc = int(e.code or 0)
        except BaseException:  # noqa: BLE001 - the interpreter would print it and exit 1
            sys.settrace(None)
            rc = 1
            if stderr_path:
                try:
                    os.makedirs(os.path.dirname(stderr_path), exist_ok=True)
                    with _rt.real_open(stderr_path, "a") as f:
                        f.write(traceback.format_exc())
                except OSError:
                    pass
    finally:
        sys.argv = old_argv
        os.chdir("/")
    return rc


class ClusterJob:
    def __init__(self, jobid, kind):
        self.id = jobid
        self.kind = kind  # "slurm" | "sge"
        self.name = None
        self.out = None
        self.err = None
        self.script = None
        self.ntasks = 1
        self.lives = []  # planned verdicts, one per (re)queue
        self.life = -1
        self.state = "PENDING"
        self.start_at = 0.0
        self.end_visible_at = 0.0
        self.procs = []  # payload actors of the current life
        self.exit_code = 0
        self.acct_lag = 0  # number of accounting queries still answered empty
        self.kill_after = None
        self.kill_in_write = None  # kill the payload inside its n-th cut file write
        self.writes_seen = 0
        self.history = []
        self.requeues = 0
        self.no_requeue = False


SBATCH_VALUE_OPTS = {"-J": "job-name", "-o": "output", "-e": "error", "-N": "nodes", "-n": "ntasks", "-p": "partition", "-t": "time", "-c": "cpus-per-task", "--mem": "mem"}
SBATCH_LONG = {"job-name", "output", "error", "nodes", "ntasks", "partition", "time", "cpus-per-task", "mem", "account", "qos"}
SBATCH_FLAGS = {"--no-requeue", "--requeue", "--exclusive", "-Q", "--quiet"}


class FakeCluster:
    def __init__(self, env, ch, kind="slurm"):
        self.env = env
        self.ch = ch
        self.kind = kind
        self.jobs = {}
        self.next_id = 1000 + ch.choose(50, "first-jobid")
        self.calls = []  # every command line received
        self.requeue_calls = []
        self.verdict_plan = None  # fn(job) -> list of verdicts
        self.errors = []  # protocol violations by the client (bad argv ...)
        self.max_lag = ch.pick([0, 2, 2, 4], "max-lag")
        env.sim.point_hook = self._on_point

    # ------------------------------------------------------------------ entry
    async def exec(self, *cmd, stdout=None, stderr=None, **kw):
        cmd = [str(c) for c in cmd]
        self.calls.append(cmd)
        self.env.sim.note("cluster-cmd", cmd[0], len(cmd))
        self.poll()
        prog = os.path.basename(cmd[0])
        try:
            rc, out, err = getattr(self, "cmd_" + prog)(cmd[1:])
        except AttributeError:
            rc, out, err = 127, "", f"{prog}: command not found\n"
        return FakeProc(self.env.loop, rc, out, err)

    # ------------------------------------------------------------------ life cycle
    def _plan_life(self, job):
        if self.verdict_plan is not None:
            job.lives = list(self.verdict_plan(job))
        else:
            job.lives = ["COMPLETED"]
        self._begin_life(job)

    def _begin_life(self, job):
        job.life += 1
        job.state = "PENDING"
        job.procs = []
        job.start_at = self.env.sim.now + self.ch.pick([0.0, 0.3, 2.5, 40.0], "pend")
        job.acct_lag = self.ch.choose(self.max_lag + 1, "acct-lag")
        verdict = job.lives[min(job.life, len(job.lives) - 1)]
        job.verdict = verdict
        job.kill_after = None
        job.kill_in_write, job.writes_seen = None, 0
        if verdict in ("CANCELLED", "TIMEOUT", "PREEMPTED", "NODE_FAIL", "EVICTED"):
            job.kill_after = self.ch.pick([0, 3, 40, 90, 150, 210, 400, -1, -1, -1], "kill-after")
            if job.kill_after == -1:
                # the node dies while the payload is in the middle of writing a file (the
                # n-th write that the simulated disk performs in more than one piece):
                # leaves a torn record / result behind
                job.kill_in_write = self.ch.randint(1, 8, "kill-in-write")
                job.kill_after = 10**9
        job.history.append(f"life{job.life}:{verdict}")

    def poll(self):
        """advance job states to the current simulated time (start due payloads)"""
        sim = self.env.sim
        for job in self.jobs.values():
            if job.state == "PENDING" and sim.now >= job.start_at:
                if job.kill_after == 0:
                    # cancelled / preempted before it ever started
                    self._finish(job, job.verdict, 0)
                    continue
                job.state = "RUNNING"
                self._start_payload(job)
            if job.state == "RUNNING":
                self._check_running(job)

    def _start_payload(self, job):
        sim = self.env.sim
        try:
            code, argvs = self._extract(job)
        except Exception as e:  # noqa: BLE001
            self.errors.append(f"batch script of job {job.id} cannot be executed: {e}")
            self._finish(job, "FAILED", 127)
            return
        for t, argv in enumerate(argvs):
            err = job.err.replace("%j", str(job.id)) if job.err else None
            name = f"x{job.id}_{job.life}_{t}"
            over = {"stop_kinds": ("body", "wchunk")} if job.kill_in_write is not None else {}
            p = sim.spawn(name, _payload, (code, argv, err), **over)
            p.tags["cluster_job"] = job.id
            job.procs.append(p)

    def _extract(self, job):
        with _rt.real_open(job.script) as f:
            text = f.read()
        lines = [ln for ln in text.splitlines() if ln.strip() and not ln.startswith("#")]
        if len(lines) != 1:
            raise ValueError(f"expected one command line in the batch script, got {lines}")
        toks = shlex.split(lines[0])
        if toks[1] == "-c":
            return toks[2], [toks[3:]]
        # SGE: python <file.py> $SGE_TASK_ID
        with _rt.real_open(toks[1]) as f:
            code = f.read()
        return code, [[str(i + 1)] for i in range(job.ntasks)]

    def _on_point(self, p):
        """called after every step of every simulated process"""
        jid = p.tags.get("cluster_job") if hasattr(p, "tags") else None
        job = self.jobs.get(str(jid)) if jid is not None else None
        if job is None or job.kill_in_write is None or p.state != "ready" or not p.pending:
            return
        if p.pending[0] == "wchunk" and p.pending[1][1] >= 1 and p in job.procs:
            job.writes_seen += 1
            if job.writes_seen >= job.kill_in_write:
                self.env.sim.kill(p, "scheduler-kill-in-write")
                self.env.sim.fault("kill_inside_write")

    def _check_running(self, job):
        sim = self.env.sim
        if job.kill_after is not None:
            for p in job.procs:
                if p.state in ("ready", "sleeping") and p.npoints >= job.kill_after:
                    self.env.sim.kill(p, "scheduler-kill")
            if all(p.state in ("done", "dead") for p in job.procs):
                if any(p.status == "killed" for p in job.procs):
                    self._finish(job, job.verdict, 0)
                    return
        if job.procs and all(p.state in ("done", "dead") for p in job.procs):
            rcs = [p.result if p.status == "ok" else 1 for p in job.procs]
            rc = max(rcs) if rcs else 0
            self._finish(job, "COMPLETED" if rc == 0 else "FAILED", rc)

    def _finish(self, job, state, rc):
        job.state = state
        job.exit_code = rc
        job.end_visible_at = self.env.sim.now + self.ch.pick([0.0, 0.5, 3.0], "end-lag")
        self.env.sim.note("cluster-verdict", job.id, state, rc)
        self.env.sim.fault("scheduler_" + state.lower())

    def next_event_time(self):
        ts = [j.start_at for j in self.jobs.values() if j.state == "PENDING"]
        return min(ts) if ts else None

    def in_queue(self, job):
        return job.state in ("PENDING", "RUNNING") or self.env.sim.now < job.end_visible_at

    # ------------------------------------------------------------------ SLURM
    def cmd_sbatch(self, args):
        opts = {}
        flags = set()
        script = None
        i = 0
        while i < len(args):
            a = args[i]
            if a.startswith("--") and "=" in a:
                k, v = a[2:].split("=", 1)
                if k not in SBATCH_LONG:
                    return 1, "", f"sbatch: unrecognized option '--{k}'\n"
                opts.setdefault(k, []).append(v)
            elif a in SBATCH_FLAGS:
                flags.add(a)
            elif a in SBATCH_VALUE_OPTS:
                if i + 1 >= len(args):
                    return 1, "", f"sbatch: option requires an argument -- '{a}'\n"
                opts.setdefault(SBATCH_VALUE_OPTS[a], []).append(args[i + 1])
                i += 1
            elif len(a) > 2 and a[:2] in SBATCH_VALUE_OPTS and not a.startswith("--"):
                opts.setdefault(SBATCH_VALUE_OPTS[a[:2]], []).append(a[2:])
            elif a.startswith("-"):
                return 1, "", f"sbatch: invalid option -- '{a}'\n"
            else:
                if script is not None:
                    return 1, "", f"sbatch: error: unexpected extra argument {a!r}\n"
                script = a
                if i != len(args) - 1:
                    return 1, "", "sbatch: error: options after the script\n"
            i += 1
        if script is None or not os.path.isfile(script):
            return 1, "", f"sbatch: error: Unable to open file {script}\n"
        job = ClusterJob(self.next_id, "slurm")
        self.next_id += 1 + self.ch.choose(3, "id-gap")
        job.script = script
        job.opts = opts
        job.name = (opts.get("job-name") or [None])[-1]
        job.out = (opts.get("output") or [None])[-1]
        job.err = (opts.get("error") or [None])[-1]
        job.no_requeue = "--no-requeue" in flags
        self.jobs[str(job.id)] = job
        self._plan_life(job)
        return 0, f"Submitted batch job {job.id}\n", ""

    def cmd_squeue(self, args):
        jid = args[args.index("-j") + 1] if "-j" in args else None
        job = self.jobs.get(str(jid))
        if job is None:
            return 1, "", "slurm_load_jobs error: Invalid job id specified\n"
        if self.in_queue(job):
            st = {"PENDING": "PD", "RUNNING": "R"}.get(job.state, "CG")
            return 0, f"  {job.id} debug {job.name or 'job'} user {st} 0:01 1 node1\n", ""
        if self.ch.chance(1, 3, "squeue-purged"):
            return 1, "", "slurm_load_jobs error: Invalid job id specified\n"
        return 0, "", ""

    def cmd_sacct(self, args):
        jid = args[args.index("-j") + 1] if "-j" in args else None
        job = self.jobs.get(str(jid))
        if job is None:
            return 0, "", ""
        if job.state not in ("PENDING", "RUNNING") and job.acct_lag > 0:
            job.acct_lag -= 1
            self.env.sim.fault("accounting_lag")
            return 0, "", ""
        state = job.state
        code = job.exit_code if state == "FAILED" else 0
        if state in ("CANCELLED",):
            shown = "CANCELLED+"
        else:
            shown = state
        return 0, f"{job.id}   {shown}   {code}:0 \n", ""

    def cmd_scontrol(self, args):
        if args[:1] == ["requeue"] and len(args) == 2:
            job = self.jobs.get(args[1])
            self.requeue_calls.append(args[1])
            if job is None:
                return 1, "", "Invalid job id specified\n"
            if job.state in ("PENDING", "RUNNING"):
                return 1, "", "Job is pending or running\n"
            job.requeues += 1
            # the lock of the dead payload must be gone by now (checked by the oracle)
            job.lock_left_at_requeue = self._stale_locks()
            self._begin_life(job)
            self.env.sim.fault("requeue")
            return 0, "", ""
        return 1, "", "scontrol: unknown command\n"

    def _stale_locks(self):
        root = self.env.cache_root
        try:
            return sorted(n for n in os.listdir(root) if n.endswith(".lock") and not n.endswith("_save.lock") and (n.startswith("python-") or n.startswith("shell-")))
        except OSError:
            return []

    # ------------------------------------------------------------------ SGE
    def cmd_qsub(self, args):
        opts = {}
        script = None
        i = 0
        ntasks = 1
        valued = {"-t", "-N", "-o", "-e", "-pe", "-l", "-q", "-P", "-cwd"}
        while i < len(args):
            a = args[i]
            if a == "-t":
                m = re.match(r"(\d+)-(\d+)$", args[i + 1])
                if not m:
                    return 1, "", f"qsub: invalid task range {args[i + 1]!r}\n"
                ntasks = int(m.group(2)) - int(m.group(1)) + 1
                i += 1
            elif a == "-pe":
                opts.setdefault("-pe", []).append((args[i + 1], args[i + 2]))
                i += 2
            elif a in ("-N", "-o", "-e", "-l", "-q", "-P"):
                opts.setdefault(a, []).append(args[i + 1])
                i += 1
            elif a in ("-cwd", "-V", "-j"):
                if a == "-j":
                    i += 1
            elif a.startswith("-"):
                return 1, "", f"qsub: Unknown option {a}\n"
            else:
                script = a
                if i != len(args) - 1:
                    return 1, "", "qsub: options after the script\n"
            i += 1
        if script is None or not os.path.isfile(script):
            return 1, "", f"qsub: unable to read script file {script}\n"
        job = ClusterJob(self.next_id, "sge")
        self.next_id += 1
        job.script = script
        job.opts = opts
        job.ntasks = ntasks
        job.name = (opts.get("-N") or [None])[-1]
        job.out = (opts.get("-o") or [None])[-1]
        job.err = (opts.get("-e") or [None])[-1]
        self.jobs[str(job.id)] = job
        self._plan_life(job)
        return 0, f'Your job-array {job.id}.1-{ntasks}:1 ("{job.name}") has been submitted\n', ""

    def cmd_qstat(self, args):
        jid = args[args.index("-j") + 1] if "-j" in args else None
        job = self.jobs.get(str(jid))
        if job is None or not self.in_queue(job):
            return 1, "", "Following jobs do not exist or permissions are not sufficient: \n" + str(jid) + "\n"
        return 0, f"==============================================================\njob_number: {job.id}\n", ""

    def cmd_qacct(self, args):
        jid = args[args.index("-j") + 1] if "-j" in args else None
        job = self.jobs.get(str(jid))
        if job is None or job.state in ("PENDING", "RUNNING"):
            return 1, "", f"error: job id {jid} not found\n"
        if job.acct_lag > 0:
            # the accounting record of a finished job is not there yet: real qacct says
            # "error: job id N not found" exactly as for a job that is still running
            job.acct_lag -= 1
            self.env.sim.fault("accounting_lag")
            return 1, "", f"error: job id {jid} not found\n"
        if job.state in ("EVICTED", "CANCELLED", "TIMEOUT", "PREEMPTED", "NODE_FAIL"):
            return 0, f"jobnumber {job.id}\nfailed 100 : assumedly after job\nexit_status 137\n", ""
        # a job that ran and exited non-zero has failed=0 (no scheduler-level failure)
        # and its exit code in exit_status
        return 0, f"jobnumber {job.id}\nfailed 0\nexit_status {job.exit_code}\n", ""

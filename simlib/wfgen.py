"""Chooser-driven generator of small workflow graphs (specs for workload.GenWf).

spec = {"nodes": [node...], "out": name, "late": [[dst, field, src]...]}
node = {"name": "n3", "label": "n3", "kind": "tok"|"list"|"wf", "ins": {"a": ref, ...},
        "split": None|"a", "combine": None|"a"|"n1.a", "n": 2, "sub": spec}
ref  = ["x"] | ["xs"] | ["c", const] | ["n", name]
"""

from __future__ import annotations


def gen_spec(ch, *, max_nodes=6, splits=True, nested=True, dups=True, depth=0, prefix="n"):
    n = ch.randint(2, max_nodes, "n-nodes")
    nodes = []
    # what each node's output looks like: "scalar" | "list"; and whether it carries state
    shape = {}
    stateful = {}
    open_splits = {}  # node name -> list of combinable split fields visible there
    for i in range(n):
        name = f"{prefix}{i}"
        nd = {"name": name, "label": name, "kind": "tok", "ins": {}, "split": None, "combine": None}
        prev = [m["name"] for m in nodes]
        kind_roll = ch.choose(10, "kind")
        if nested and depth == 0 and i > 0 and kind_roll == 9:
            nd["kind"] = "wf"
            nd["sub"] = gen_spec(ch, max_nodes=3, splits=False, nested=False, dups=False, depth=1, prefix=f"{name}i")
        elif splits and kind_roll >= 7:
            nd["kind"] = "list"
            nd["n"] = ch.randint(1, 3, "list-n")
        # inputs
        nin = 1 if nd["kind"] != "tok" else ch.randint(1, 3 if prev else 1, "n-in")
        fields = ["a", "b", "c"][:nin]
        vis = []
        for f in fields:
            if prev and ch.choose(4, "src") != 0:
                src = prev[ch.choose(len(prev), "which")]
                # prefer recent nodes so that chains and diamonds appear
                nd["ins"][f] = ["n", src]
                vis += open_splits.get(src, [])
            else:
                nd["ins"][f] = ["x"] if ch.choose(3, "wfin") else ["c", ch.choose(3, "const")]
        if nd["kind"] == "wf":
            nd["ins"] = {"a": nd["ins"]["a"]}
        # split on field a over a list source
        mine = []
        if splits and nd["kind"] == "tok" and ch.choose(4, "split") == 0:
            srcs = [["xs"]] + [["n", m["name"]] for m in nodes if shape[m["name"]] == "list" and not stateful[m["name"]]]
            nd["ins"]["a"] = srcs[ch.choose(len(srcs), "split-src")]
            nd["split"] = "a"
            mine = [f"{name}.a"]
        vis = list(dict.fromkeys(vis + mine))
        # combine one visible split
        if vis and ch.choose(3, "combine") == 0:
            c = vis[ch.choose(len(vis), "comb-which")]
            nd["combine"] = "a" if c == f"{name}.a" else c
            vis = [v for v in vis if v != c]
            out_shape = "list"
        else:
            out_shape = "list" if nd["kind"] == "list" else "scalar"
        if dups and nodes and nd["kind"] == "tok" and not nd["split"] and ch.choose(8, "dup") == 0:
            # same identity as an earlier plain node (or nested workflow): same label/sub-spec and same inputs
            cands = [m for m in nodes if m["kind"] in ("tok", "wf") and not m["split"] and not m["combine"]]
            if cands:
                m = cands[ch.choose(len(cands), "dup-of")]
                nd["label"] = m["label"]
                nd["kind"] = m["kind"]
                if m["kind"] == "wf":
                    nd["sub"] = m["sub"]
                nd["ins"] = dict(m["ins"])
                nd["combine"] = None
                vis = list(open_splits.get(m["name"], []))
                out_shape = shape[m["name"]]
        shape[name] = out_shape
        open_splits[name] = vis
        stateful[name] = bool(vis)
        nodes.append(nd)
    spec = {"nodes": nodes, "out": nodes[-1]["name"], "late": []}
    return spec


def add_dup_nested(ch, spec):
    """two nested-workflow nodes with the same identity (same sub-spec, same inputs):
    both are awaited inline by the async loop and contend for one PydraFileLock"""
    sub = gen_spec(ch, max_nodes=3, splits=False, nested=False, dups=False, depth=1, prefix="dwi")
    first = spec["nodes"][0]["name"]
    for nm in ("dw0", "dw1"):
        spec["nodes"].append({"name": nm, "label": "dw", "kind": "wf", "ins": {"a": ["n", first]}, "split": None, "combine": None, "sub": sub})
    spec["nodes"].append({"name": "dwout", "label": "dwout", "kind": "tok", "ins": {"a": ["n", "dw0"], "b": ["n", "dw1"]}, "split": None, "combine": None})
    spec["out"] = "dwout"
    return spec


def add_cross_level_dup(ch, spec):
    """an outer node and a node inside a nested workflow with the same identity: the
    outer one goes to the pool while the nested workflow (awaited inline, with its own
    de-duplication table) submits the identical job"""
    sub = {"nodes": [{"name": "cxi0", "label": "cx", "kind": "tok", "ins": {"a": ["x"]}, "split": None, "combine": None}], "out": "cxi0", "late": []}
    spec["nodes"].insert(0, {"name": "cx", "label": "cx", "kind": "tok", "ins": {"a": ["x"]}, "split": None, "combine": None})
    spec["nodes"].insert(1, {"name": "cxw", "label": "cxw", "kind": "wf", "ins": {"a": ["x"]}, "split": None, "combine": None, "sub": sub})
    spec["nodes"].append({"name": "cxout", "label": "cxout", "kind": "tok", "ins": {"a": ["n", "cx"], "b": ["n", "cxw"]}, "split": None, "combine": None})
    spec["out"] = "cxout"
    return spec


def add_back_edge(ch, spec):
    """C18: close a cycle through late input assignment: dst gets an input from a node
    that (transitively) depends on dst."""
    names = [n["name"] for n in spec["nodes"] if n["kind"] == "tok"]
    cands = []
    for d in names:
        down = downstream(spec, {d}) - {d}
        srcs = [n for n in names if n in down]
        if srcs:
            cands.append((d, srcs))
    if not cands:
        return False
    d, srcs = cands[ch.choose(len(cands), "be-dst")]
    spec["late"].append([d, ["a", "b", "c"][ch.choose(3, "be-field")], srcs[ch.choose(len(srcs), "be-src")]])
    return True


def node_graph(spec):
    """name -> set of direct predecessor names (top level only)"""
    preds = {}
    for nd in spec["nodes"]:
        preds[nd["name"]] = {r[1] for r in nd["ins"].values() if r[0] == "n"}
    for dst, _f, src in spec.get("late", []):
        preds[dst].add(src)
    return preds


def downstream(spec, roots):
    preds = node_graph(spec)
    down = set(roots)
    changed = True
    while changed:
        changed = False
        for n, ps in preds.items():
            if n not in down and ps & down:
                down.add(n)
                changed = True
    return down


def describe(spec):
    out = []
    for nd in spec["nodes"]:
        ins = ",".join(f"{f}={'<-' + r[1] if r[0] == 'n' else r[0] if r[0] != 'c' else r[1]}" for f, r in nd["ins"].items())
        s = f"{nd['name']}[{nd['kind']}{'=' + nd['label'] if nd['label'] != nd['name'] else ''}]({ins})"
        if nd.get("split"):
            s += ".split(a)"
        if nd.get("combine"):
            s += f".combine({nd['combine']})"
        out.append(s)
    for late in spec.get("late", []):
        out.append(f"late:{late[0]}.{late[1]}<-{late[2]}")
    return " ; ".join(out)

"""lockstep engine: real forked processes, single-stepped by one controller.

Exactly one simulated process is runnable at any instant; which one is the Chooser's
decision.  Children stop at pre-emption points (line events of traced files, simulated
sleeps, write chunks, workload points) and wait for the controller's "go".  A crash is a
real SIGKILL followed by waitpid, so that only what reached the directory survives and
the PID is really gone when someone probes it.
"""

from __future__ import annotations

import hashlib
import multiprocessing as mp
import os
import signal
import sys
import traceback

from . import rt as _rt


class HarnessError(Exception):
    pass


class Proc:
    def __init__(self, name, pid, conn):
        self.name = name
        self.pid = pid
        self.conn = conn
        self.state = "new"  # ready | sleeping | done | dead
        self.wake_at = 0.0
        self.pending = None  # (kind, label) of the point it is parked at
        self.status = None  # "ok" | "exc" | "killed" | "lost"
        self.result = None
        self.steps = 0
        self.in_body = 0
        self.npoints = 0
        self.tags = {}
        import select

        self.poll = select.poll()
        self.poll.register(conn.fileno(), select.POLLIN)

    def __repr__(self):
        return f"<Proc {self.name} {self.state} {self.pending}>"


def reset_state(env=None):
    """Bring a (reused) process back to the state a fresh one would have, as far as
    pydra's process-global state is concerned."""
    os.chdir("/")
    try:
        from pydra.engine.workflow import Workflow

        Workflow._constructed_cache.clear()
    except Exception:
        pass
    _rt._uuid_counter[0] = 0
    _rt._lock_fds.clear()
    from . import workload

    workload._plan_cache.clear()
    for k in [k for k in os.environ if k.startswith("VERIF_RUN_")]:
        del os.environ[k]
    for k in ("VERIF_FAULTPLAN", "VERIF_ATTEMPTS", "VERIF_EVLOG"):
        os.environ.pop(k, None)
    for k, v in (env or {}).items():
        os.environ[k] = v


def _run_task(conn, name, fn, args, cfg):
    import faulthandler

    wall = cfg.get("child_wall", 300)
    if wall:
        faulthandler.dump_traceback_later(wall, exit=True)
    reset_state(cfg.get("env"))
    crt = _rt.ChildRT(conn, name, cfg)
    crt.uuid_salt = cfg.get("uuid_salt", "")
    _rt.install(crt)
    crt.point("start", "")
    tracer = _rt.make_tracer(cfg.get("trace_files", {}))
    status = "ok"
    try:
        if cfg.get("trace_files"):
            sys.settrace(tracer)
        res = fn(*args)
    except BaseException as e:  # noqa: BLE001 - reported to the controller
        sys.settrace(None)
        status = "exc"
        res = {
            "type": type(e).__name__,
            "msg": str(e),
            "notes": list(getattr(e, "__notes__", [])),
            "tb": traceback.format_exc()[-4000:],
        }
    sys.settrace(None)
    crt.in_rt = True
    try:
        conn.send(("done", status, res))
    except Exception as e:  # unpicklable result
        conn.send(("done", "exc", {"type": "HarnessSendError", "msg": repr(e), "notes": [], "tb": ""}))
    if wall:
        faulthandler.cancel_dump_traceback_later()


def warm_process():
    """Per-process first-use effects (filelock re-initialises itself on its first use
    after a fork) must not depend on a process's history: trigger them now."""
    from filelock import SoftFileLock

    p = f"/dev/shm/pv/.warm-{os.getpid()}.lock"
    with SoftFileLock(p):
        pass


def _actor_main(conn):
    """A persistent simulated node: runs one task per "run" message."""
    try:
        signal.signal(signal.SIGALRM, signal.SIG_DFL)
        signal.setitimer(signal.ITIMER_REAL, 0)
        signal.signal(signal.SIGINT, signal.SIG_DFL)
        sys.settrace(None)
        warm_process()
        while True:
            try:
                msg = conn.recv()
            except (EOFError, OSError):
                break
            if msg[0] == "exit":
                break
            _, name, fn, args, cfg = msg
            _run_task(conn, name, fn, args, cfg)
    finally:
        os._exit(0)


_forklock_fd = None


def serial_fork():
    """fork() under a system-wide flock: parallel forks collapse in this sandbox
    (14 ms alone, ~300 ms each when 12 run at once), serialised ones do not."""
    global _forklock_fd
    import fcntl

    if _forklock_fd is None:
        _forklock_fd = _rt.real_os_open("/dev/shm/pv/.forklock", os.O_CREAT | os.O_RDWR, 0o666)
    fcntl.flock(_forklock_fd, fcntl.LOCK_EX)
    try:
        pid = os.fork()
    finally:
        if pid != 0:
            fcntl.flock(_forklock_fd, fcntl.LOCK_UN)
    if pid == 0:
        # the child shares the open file description: it must not unlock the parent's
        # lock, and must not keep the descriptor
        os.close(_forklock_fd)
        _forklock_fd = None
    return pid


class ActorPool:
    """Process creation is the scarce resource in this sandbox (fork is globally
    serialised): simulated nodes are persistent processes, reset between runs; only
    SIGKILLed victims are replaced."""

    def __init__(self):
        self.idle = []  # (pid, conn)
        self.conns = {}  # pid -> conn of every live actor
        self.forks = 0
        self.owner = os.getpid()

    def _check_owner(self):
        if self.owner != os.getpid():  # forked copy of a pool: start afresh
            self.idle = []
            self.conns = {}
            self.owner = os.getpid()

    def fork_one(self):
        self._check_owner()
        parent_conn, child_conn = mp.Pipe()
        sys.stdout.flush()
        sys.stderr.flush()
        pid = serial_fork()
        if pid == 0:
            try:
                for c in self.conns.values():
                    try:
                        c.close()
                    except Exception:
                        pass
                parent_conn.close()
                # the fork may have happened inside a trace callback (the simloop
                # controller dispatches from its line hook): tracing is disabled while a
                # trace function runs, and the child never returns from it.
                sys.call_tracing(_actor_main, (child_conn,))
            finally:
                os._exit(71)
        child_conn.close()
        self.conns[pid] = parent_conn
        self.forks += 1
        return pid, parent_conn

    def prefork(self, n):
        self._check_owner()
        while len(self.idle) < n:
            self.idle.append(self.fork_one())

    def get(self):
        self._check_owner()
        if self.idle:
            return self.idle.pop()
        return self.fork_one()

    def release(self, pid, conn):
        self.idle.append((pid, conn))

    def discard(self, pid):
        c = self.conns.pop(pid, None)
        if c is not None:
            try:
                c.close()
            except Exception:
                pass
        try:
            os.waitpid(pid, 0)
        except ChildProcessError:
            pass

    def close(self):
        self._check_owner()
        for pid, conn in self.idle:
            try:
                conn.send(("exit",))
            except Exception:
                pass
        for pid in list(self.conns):
            self.discard(pid)
        self.idle = []


POOL = ActorPool()


class Sim:
    def __init__(
        self,
        ch,
        root,
        *,
        trace_files=None,
        chunk_writes=False,
        switch_den=6,
        max_steps=200_000,
        uuid_salt="",
        keep_log=400,
    ):
        self.ch = ch
        self.root = str(root)
        self.trace_files = trace_files or {}
        self.short_to_abs = {v: k for k, v in self.trace_files.items()}
        self.chunk_writes = chunk_writes
        self.switch_den = switch_den
        self.max_steps = max_steps
        self.uuid_salt = uuid_salt
        self.now = _rt.EPOCH
        self.procs: dict[str, Proc] = {}
        self.steps = 0
        self.hasher = hashlib.sha256()
        self.log = []  # bounded tail of observable events
        self.events = []  # all workload events (proc, data)
        self.keep_log = keep_log
        self.faults = {}
        self.probes = {}
        self.current = None
        self.switches = 0
        self.on_event = None
        self.max_cuts = 3
        self.point_hook = None  # called with (proc) after each step
        self.env = {}  # environment of every simulated process of this run
        self.steplog = [] if os.environ.get("VERIF_STEPLOG") else None
        self.burst_lo = 0  # index into BURSTS: larger = only shorter bursts
        self.fault_every_burst = False

    # ---------------------------------------------------------------- utilities
    def fault(self, kind, n=1):
        self.faults[kind] = self.faults.get(kind, 0) + n

    def probe(self, name, n=1):
        self.probes[name] = self.probes.get(name, 0) + n

    def note(self, *data):
        self.hasher.update(repr(data).encode())
        self.log.append(data)
        if len(self.log) > self.keep_log:
            del self.log[: len(self.log) - self.keep_log]

    def digest(self):
        return self.hasher.hexdigest()[:20]

    def label_text(self, pending):
        if not pending:
            return "?"
        kind, label = pending
        if kind == "line":
            return _rt.line_text(self.short_to_abs, label)
        return f"{kind}:{label}"

    # ---------------------------------------------------------------- processes
    def spawn(self, name, fn, args=(), **cfg_over):
        assert name not in self.procs
        cfg = {
            "now": self.now,
            "root": self.root,
            "chunk_writes": self.chunk_writes,
            "trace_files": self.trace_files,
            "uuid_salt": self.uuid_salt,
            "env": self.env,
        }
        cfg.update(cfg_over)
        pid, conn = POOL.get()
        conn.send(("run", name, fn, args, cfg))
        proc = Proc(name, pid, conn)
        self.procs[name] = proc
        self._pump(proc)  # parks at the "start" point
        self.note("spawn", name)
        return proc

    def _reap(self, proc):
        """the process is gone (killed or lost)"""
        POOL.discard(proc.pid)

    def _pump(self, proc):
        poll = proc.poll
        while True:
            for _ in range(_rt.SPIN_CTRL):
                if poll.poll(0):
                    break
            try:
                msg = proc.conn.recv()
            except (EOFError, ConnectionResetError, OSError):
                proc.state = "dead"
                proc.status = "lost"
                self._reap(proc)
                self.note("lost", proc.name)
                # a simulated process vanished without being killed by the simulator
                # (watchdog, crash of the interpreter): never a verdict about pydra
                raise HarnessError(f"simulated process {proc.name} was lost at {self.label_text(proc.pending)}")
            kind = msg[0]
            if kind == "ev":
                data = msg[1]
                self.events.append((proc.name, data))
                self.note("ev", proc.name, data)
                if data and data[0] == "enter":
                    proc.in_body += 1
                elif data and data[0] == "exit":
                    proc.in_body -= 1
                if self.on_event:
                    self.on_event(proc, data)
                continue
            if kind == "wr":
                proc.conn.send(("cuts", self._cuts(msg[1], msg[2])))
                continue
            if kind == "pt":
                proc.state = "ready"
                proc.pending = (msg[1], msg[2])
                self._passed(proc, msg[3], msg[4])
                return
            if kind == "sleep":
                proc.state = "sleeping"
                proc.wake_at = self.now + max(0.0, msg[1])
                proc.pending = ("sleep", msg[1])
                self._passed(proc, msg[2], msg[3])
                return
            if kind == "done":
                proc.state = "done"
                proc.status = msg[1]
                proc.result = msg[2]
                proc.pending = None
                POOL.release(proc.pid, proc.conn)
                self.note("done", proc.name, msg[1])
                return
            raise HarnessError(f"bad child message {msg!r}")

    def _passed(self, proc, npoints, phash):
        d = npoints - proc.npoints
        proc.npoints = npoints
        self.steps += max(0, d - 1)
        self.hasher.update(repr((proc.name, npoints, phash)).encode())

    def _cuts(self, fname, n):
        """Cut offsets for a write of n bytes, as eighths so that the decisions do not
        depend on n."""
        if n < 2 or not self.chunk_writes:
            return []
        k = self.ch.choose(self.max_cuts + 1, "ncuts")
        offs = set()
        for _ in range(k):
            e = 1 + self.ch.choose(7, "cut")
            o = n * e // 8
            if 0 < o < n:
                offs.add(o)
        return sorted(offs)

    def ready(self):
        out = []
        for p in self.procs.values():
            if p.state == "ready" or (p.state == "sleeping" and p.wake_at <= self.now):
                out.append(p)
        return out

    def live(self):
        return [p for p in self.procs.values() if p.state in ("ready", "sleeping")]

    def step(self, proc, burst=1):
        """Resume proc; it passes `burst` pre-emption points before reporting back
        (sleeps, completion and cut requests always report)."""
        if proc.state not in ("ready", "sleeping"):
            raise HarnessError(f"step of {proc}")
        self.steps += 1
        proc.steps += 1
        self.hasher.update(repr((proc.name, proc.pending, burst)).encode())
        if self.steplog is not None:
            self.steplog.append((proc.name, proc.pending, burst))
            self.log.append(("step", proc.name, proc.pending, burst, len(self.ch.trace)))
        proc.conn.send(("go", self.now, burst - 1))
        self._pump(proc)
        if self.point_hook:
            self.point_hook(proc)

    def kill(self, proc, why="kill"):
        if proc.state in ("done", "dead"):
            return
        at = self.label_text(proc.pending)
        try:
            os.kill(proc.pid, signal.SIGKILL)
        except ProcessLookupError:
            pass
        self._reap(proc)
        proc.state = "dead"
        proc.status = "killed"
        proc.tags["killed_at"] = at
        self.fault(why)
        self.note("kill", proc.name, at)

    def stall(self, proc, dt):
        """Do not schedule proc for dt simulated seconds (its pending point is kept)."""
        if proc.state == "ready":
            proc.state = "sleeping"
            proc.wake_at = self.now + dt
            self.fault("stall")
            self.note("stall", proc.name, dt)

    def jump_clock(self):
        sl = [p.wake_at for p in self.procs.values() if p.state == "sleeping"]
        if not sl:
            return False
        t = min(sl)
        if t > self.now:
            self.now = t
        return True

    # ---------------------------------------------------------------- scheduling
    BURSTS = (4096, 89, 34, 13, 5, 2, 1)

    def pick(self, ready):
        """Seeded choice of who runs next and for how many points (decision 0 = the
        first ready process runs until it blocks)."""
        if len(ready) == 1:
            p = ready[0]
        else:
            p = ready[self.ch.choose(len(ready), "who")]
            if p is not self.current:
                self.switches += 1
        self.current = p
        if len(ready) == 1 and not self.fault_every_burst:
            return p, 4096
        lo = self.burst_lo
        b = self.BURSTS[lo + self.ch.choose(len(self.BURSTS) - lo, "burst")] if lo else self.BURSTS[self.ch.choose(len(self.BURSTS), "burst")]
        return p, b

    def run(self, until=None, before_step=None, max_steps=None, fair=False):
        """Run until `until()` or nothing is alive.  Returns "until" | "idle" | "budget"."""
        budget = self.max_steps if max_steps is None else self.steps + max_steps
        rr = 0
        while True:
            if until is not None and until():
                return "until"
            live = self.live()
            if not live:
                return "idle"
            ready = self.ready()
            if not ready:
                self.jump_clock()
                continue
            if self.steps >= budget:
                return "budget"
            if fair:
                rr += 1
                p, burst = ready[rr % len(ready)], 64
            else:
                p, burst = self.pick(ready)
            if before_step is not None:
                if before_step(p) == "skip":
                    continue
            self.step(p, burst)

    def shutdown(self):
        for p in self.procs.values():
            if p.state in ("ready", "sleeping", "new"):
                try:
                    os.kill(p.pid, signal.SIGKILL)
                except ProcessLookupError:
                    pass
                self._reap(p)
                p.state = "dead"
                p.status = p.status or "shutdown"


def pydra_trace_files(fine=False, extra=()):
    """absolute filename -> short name of the files whose lines are pre-emption points"""
    import pydra.engine.job as j
    import pydra.engine.result as r

    files = {j.__file__: "job.py", r.__file__: "result.py"}
    if fine:
        import filelock._soft as s
        import filelock._api as a

        files[s.__file__] = "filelock/_soft.py"
        files[a.__file__] = "filelock/_api.py"
    for mod in extra:
        files[mod.__file__] = os.path.basename(mod.__file__)
    return files

"""Where the system under test lives.

The checks import pydra from /repo's working tree.  VERIF_REPO overrides that with
another working tree (used by tools/run_seeded.py to run a check against a scratch git
worktree carrying a breaking change, so that /repo itself stays untouched)."""

import os

REPO = os.path.realpath(os.environ.get("VERIF_REPO") or "/repo")
VERIF = os.path.dirname(os.path.dirname(os.path.abspath(__file__)))

"""simloop engine: virtual-time asyncio loop + simulated process pool.

The controller process runs the real Submitter / NodeExecution / worker coroutines on a
`SimLoop` whose clock is the simulation clock.  `ConcurrentFuturesWorker.pool` is a
`SimPool`: its worker processes are lockstep actors executing the real
`uncloudpickle_and_run` on the real cloudpickled job, single-stepped by the same seeded
scheduler.  The controller's own pydra code is traced at line granularity, and at those
points (and whenever the loop has nothing ready) the scheduler lets pool workers make
progress, delivers completed futures, or jumps the clock to the next timer.
"""

from __future__ import annotations

import asyncio
import concurrent.futures as cf
import concurrent.futures.process as cfp
import heapq
import os
import pickle
import sys
import traceback

import cloudpickle as cp

from . import lockstep
from . import rt as _rt
from .paths import REPO


class StepBudgetExceeded(KeyboardInterrupt):
    """The submission did not terminate within the deterministic step budget.
    (KeyboardInterrupt subclass: asyncio tasks re-raise it instead of storing it.)"""


class DetTask(asyncio.Task):
    """asyncio.Task whose hash is its creation number within the run.

    pydra keeps its task futures in sets (`task_futures`, the `completed` set returned by
    asyncio.wait) and iterates over them; with the default identity hash that order depends
    on memory addresses, i.e. on the history of the process, not on the seed.  Under the
    simulated loop `asyncio.Task` is this class, so the order is a function of the run."""

    _seq = 0

    def __init__(self, *a, **k):
        DetTask._seq += 1
        self._det_hash = DetTask._seq  # before super().__init__: it registers the task in a WeakSet
        super().__init__(*a, **k)

    def __hash__(self):
        return self._det_hash


class SimDeadlock(KeyboardInterrupt):
    """Nothing is runnable, no timer is pending and the main coroutine is not done."""


# --------------------------------------------------------------------------- pool side


def _pool_call(fn_pkl, args_pkl):
    """What a ProcessPoolExecutor worker does for one call item."""
    try:
        fn = pickle.loads(fn_pkl)
        args = pickle.loads(args_pkl)
        r = fn(*args)
        return ("ok", pickle.dumps(r))
    except BaseException as e:  # noqa: BLE001
        sys.settrace(None)
        exc = cfp._ExceptionWithTraceback(e, e.__traceback__)
        try:
            return ("exc", pickle.dumps(exc))
        except Exception as e2:  # unpicklable exception
            return ("exc", pickle.dumps(cfp._ExceptionWithTraceback(RuntimeError(repr(e)), e2.__traceback__)))


class SimPool(cf.Executor):
    """Reproduces what ProcessPoolExecutor does and nothing more: persistent workers,
    FIFO call queue, results/exceptions pickled back, broken pool on worker death."""

    def __init__(self, env, n_procs):
        self.env = env
        self.n_procs = max(1, int(n_procs))
        self.queue = []  # (future, fn_pkl, args_pkl, label)
        self.running = {}  # proc name -> (future, label)
        self.completions = []  # (future, status, payload) not yet delivered
        self.broken = False
        self.nworkers = 0
        self.ncalls = 0
        self.shut = False
        self.max_running = 0

    def submit(self, fn, /, *args, **kwargs):
        fut = cf.Future()
        if self.broken:
            fut.set_exception(cfp.BrokenProcessPool("A child process terminated abruptly, the process pool is not usable anymore"))
            return fut
        self.ncalls += 1
        self.queue.append((fut, pickle.dumps(fn), pickle.dumps(args), self.ncalls))
        self.env.sim.note("pool-submit", self.ncalls)
        return fut

    # called by the scheduler ------------------------------------------------------
    def can_dispatch(self):
        return bool(self.queue) and len(self.running) < self.n_procs and not self.broken

    def dispatch(self):
        fut, fn_pkl, args_pkl, label = self.queue.pop(0)
        self.nworkers += 1
        name = f"w{label}"
        sim = self.env.sim
        p = sim.spawn(name, _pool_call, (fn_pkl, args_pkl))
        fut.set_running_or_notify_cancel()
        self.running[name] = (fut, label)
        self.max_running = max(self.max_running, len(self.running))
        sim.note("pool-dispatch", label)
        return p

    def on_done(self, proc):
        fut, label = self.running.pop(proc.name)
        if proc.status == "ok":
            status, payload = proc.result
        else:  # the call wrapper itself failed (harness) or the process was lost
            status, payload = "lost", None
        self.completions.append((fut, status, payload, label))

    def on_killed(self, proc):
        """A worker died: the pool is broken, as in concurrent.futures."""
        self.broken = True
        exc = cfp.BrokenProcessPool("A process in the process pool was terminated abruptly while the future was running or pending.")
        for name, (fut, label) in list(self.running.items()):
            self.completions.append((fut, "broken", exc, label))
        self.running.clear()
        for fut, _f, _a, label in self.queue:
            self.completions.append((fut, "broken", exc, label))
        self.queue.clear()

    def deliver(self, i=0):
        fut, status, payload, label = self.completions.pop(i)
        self.env.sim.note("pool-deliver", label, status)
        if status == "ok":
            fut.set_result(pickle.loads(payload))
        elif status == "exc":
            fut.set_exception(pickle.loads(payload))
        elif status == "broken":
            fut.set_exception(payload)
        else:
            fut.set_exception(cfp.BrokenProcessPool("worker lost"))

    def shutdown(self, wait=True, *, cancel_futures=False):
        self.shut = True


# --------------------------------------------------------------------------- loop


class SimLoop(asyncio.BaseEventLoop):
    def __init__(self, env):
        super().__init__()
        self.env = env
        self._clock_resolution = 1e-5  # > ulp of the simulated epoch (2.4e-7 at 1.7e9)

    def time(self):
        return self.env.sim.now

    def call_soon_threadsafe(self, callback, *args, context=None):
        return self.call_soon(callback, *args, context=context)

    def _write_to_self(self):
        pass

    def _process_events(self, event_list):
        pass

    def _run_once(self):
        while self._scheduled and self._scheduled[0]._cancelled:
            self._timer_cancelled_count -= 1
            h = heapq.heappop(self._scheduled)
            h._scheduled = False
        env = self.env
        if not self._ready and not self._stopping:
            # nothing to do in the loop: an external actor moves, or the clock jumps
            when = self._scheduled[0]._when if self._scheduled else None
            env.external(when)
        elif not self._stopping:
            # a busy loop (e.g. polling with sleep(0)) neither stops the world nor the
            # clock: running callbacks takes time, and the other processes keep going
            env.busy_tick()
        end_time = self.time() + self._clock_resolution
        while self._scheduled:
            handle = self._scheduled[0]
            if handle._when >= end_time:
                break
            handle = heapq.heappop(self._scheduled)
            handle._scheduled = False
            self._ready.append(handle)
        ntodo = len(self._ready)
        for _ in range(ntodo):
            handle = self._ready.popleft()
            if handle._cancelled:
                continue
            handle._run()
        handle = None


# --------------------------------------------------------------------------- controller runtime


class CtrlRT:
    """Runtime of the controller process (it is an actor of the simulation too)."""

    simulated = True
    name = "ctl"

    def __init__(self, env):
        self.env = env
        self.root = env.sim.root
        self.chunk_writes = env.chunk_ctl_writes
        self.in_rt = False
        self.uuid_salt = env.sim.uuid_salt

    def now(self):
        return self.env.sim.now

    def sleep(self, dt):
        env = self.env
        env.sim.note("ctl-sleep", round(dt, 6))
        target = env.sim.now + max(0.0, dt)
        self.in_rt = True
        try:
            env.interleave(force=True)
            if env.sim.now < target:
                env.sim.now = target
        finally:
            self.in_rt = False

    def point(self, kind, label=""):
        if self.in_rt:
            return
        self.in_rt = True
        try:
            self.env.ctl_point(kind, label)
        finally:
            self.in_rt = False

    def event(self, *data):
        sim = self.env.sim
        sim.events.append(("ctl", data))
        sim.note("ev", "ctl", data)

    def cuts(self, fname, n):
        return self.env.sim._cuts(fname, n)


class SimEnv:
    """One simulated submission environment (controller + pool + loop)."""

    def __init__(self, ch, workdir, *, n_procs=2, fine=False, trace_ctl=True, uuid_salt="", profile=None, chunk_writes=True, max_calls=4_000_000):
        prof = profile or {}
        self.ch = ch
        self.sim = lockstep.Sim(
            ch,
            workdir,
            trace_files=lockstep.pydra_trace_files(fine=fine) if prof.get("step_workers", True) else {},
            chunk_writes=chunk_writes,
            uuid_salt=uuid_salt,
            max_steps=prof.get("max_steps", 400_000),
        )
        self.sim.burst_lo = prof.get("burst_lo", 0)
        self.pool = SimPool(self, n_procs)
        self.chunk_ctl_writes = prof.get("chunk_ctl_writes", False)
        self.trace_ctl = trace_ctl
        self.ctl_budget = 0
        self.ctl_interleave_den = prof.get("ctl_interleave_den", 6)  # 1/den of the controller's line points let others run
        self.ext_steps_max = prof.get("ext_steps_max", 4)
        self.timer_bias = prof.get("timer_bias", 3)  # chance (1/n) to fire the next timer although workers could run
        self.deliver_delay = prof.get("deliver_delay", 3)
        self.hold_body = prof.get("hold_body", 0)  # 1/n chance to skip a worker that is inside a body
        self.calls = 0
        self.max_calls = max_calls
        self.loop = None
        self.fault_hook = None  # fn(env, proc) called before a worker step
        self.deadlock = False
        self.ext_budget = prof.get("ext_budget", 300_000)
        self.ext_count = 0
        self.t_limit = prof.get("t_limit", 3600.0)
        self.hang = None
        self.probe_lines = {}  # (abs filename, lineno) -> probe name
        self.cluster = None  # optional simlib.cluster.FakeCluster
        self.busy_iters = 0
        self.cache_root = None

    def add_line_probe(self, module, text, name):
        """count executions of the controller lines of `module` whose stripped source
        starts with `text` (resolved by source text, not line number)"""
        import inspect

        fn = module.__file__
        src, _ = inspect.findsource(module)
        n = 0
        for i, ln in enumerate(src, 1):
            if ln.strip().startswith(text):
                self.probe_lines[(fn, i)] = name
                n += 1
        if not n:
            # the source changed: the probe is reported as unresolved, never an error
            self.sim.probes[name + "(unresolved)"] = 1

    # ---------------------------------------------------------------- actors
    def workers_ready(self):
        return [p for p in self.sim.ready() if p.name.startswith("w") or p.name.startswith("x")]

    def _step_worker(self, p):
        sim = self.sim
        if self.fault_hook is not None:
            if self.fault_hook(self, p) == "skip":
                return
        if len(sim.ready()) > 1:
            burst = sim.BURSTS[sim.burst_lo + self.ch.choose(len(sim.BURSTS) - sim.burst_lo, "burst")]
        else:
            burst = sim.BURSTS[self.ch.choose(len(sim.BURSTS), "burst")]
        sim.step(p, burst)
        if self.cluster is not None:
            self.cluster.poll()
        if p.state == "done" and p.name in self.pool.running:
            self.pool.on_done(p)
        elif p.state == "dead" and p.name in self.pool.running:
            self.pool.on_killed(p)

    def kill_worker(self, p, why="kill"):
        self.sim.kill(p, why)
        if p.name in self.pool.running:
            self.pool.on_killed(p)

    def options(self, allow_timer, when):
        opts = []
        ready = self.workers_ready()
        if self.hold_body and len(ready) > 1:
            held = [p for p in ready if p.in_body and self.ch.chance(1, self.hold_body, "hold")]
            if len(held) < len(ready):
                ready = [p for p in ready if p not in held]
        for p in ready:
            opts.append(("step", p))
        if self.pool.can_dispatch():
            opts.append(("dispatch", None))
        for i in range(min(len(self.pool.completions), 3)):
            opts.append(("deliver", i))
        return opts

    def one_external(self, opts):
        kind, arg = opts[self.ch.choose(len(opts), "ext")]
        if kind == "step":
            self._step_worker(arg)
        elif kind == "dispatch":
            self.pool.dispatch()
        elif kind == "deliver":
            self.pool.deliver(arg)
        return kind

    def external(self, when):
        """Called by the loop when it has nothing ready.  `when` = next timer or None."""
        sim = self.sim
        while True:
            self.ext_count += 1
            if self.ext_count > self.ext_budget or sim.steps > sim.max_steps or sim.now - _rt.EPOCH > self.t_limit:
                self.hang = "budget"
                raise StepBudgetExceeded(f"external step budget exceeded (ext={self.ext_count}, steps={sim.steps}, t={sim.now - _rt.EPOCH:.1f}s)")
            if self.cluster is not None:
                self.cluster.poll()
            opts = self.options(True, when)
            if when is not None and when <= sim.now:
                return
            if opts:
                # a timer may fire although others could still run (they are "slow")
                if when is not None and self.ch.chance(1, self.timer_bias, "timer-first"):
                    sim.now = max(sim.now, when)
                    sim.note("clock", round(sim.now - _rt.EPOCH, 6))
                    return
                kind = self.one_external(opts)
                if kind == "deliver" or self.loop._ready:
                    return
                continue
            # nobody can move now: jump the clock to the next wake-up / timer
            wakes = [p.wake_at for p in sim.procs.values() if p.state == "sleeping"]
            cand = wakes + ([when] if when is not None else [])
            if self.cluster is not None and self.cluster.next_event_time() is not None:
                cand.append(self.cluster.next_event_time())
            if not cand:
                self.deadlock = True
                self.hang = "deadlock"
                raise SimDeadlock("no runnable actor, no timer, submission not finished")
            sim.now = max(sim.now, min(cand))
            sim.note("clock", round(sim.now - _rt.EPOCH, 6))
            if when is not None and when <= sim.now:
                return

    def busy_tick(self):
        self.sim.now += 1e-4
        self.busy_iters += 1
        if self.cluster is not None:
            self.cluster.poll()
        if self.busy_iters % 8 == 0 and (self.workers_ready() or self.pool.can_dispatch()):
            self.interleave(force=True)  # fairness: a busy loop never starves the others

    def interleave(self, force=False):
        """Let other actors make progress while the controller is inside synchronous
        code (between two of its lines, or during a blocking sleep)."""
        n = self.ch.choose(self.ext_steps_max + 1, "n-ext") + (1 if force else 0)
        for _ in range(n):
            opts = [o for o in self.options(False, None) if o[0] != "deliver"]
            if not opts:
                break
            self.one_external(opts)

    def ctl_point(self, kind, label):
        sim = self.sim
        if sim.steplog is not None:
            sim.log.append(("ctlpt", label, len(self.ch.trace)))
        if self.ctl_budget > 0:
            self.ctl_budget -= 1
            return
        # how many controller points until the next opportunity for others
        self.ctl_budget = sim.BURSTS[1 + self.ch.choose(len(sim.BURSTS) - 1, "ctl-burst")]
        if kind == "line":
            sim.hasher.update(repr(("ctl", label)).encode())
            if sim.steplog is not None:
                sim.log.append(("ctl", label))
        if self.workers_ready() or self.pool.can_dispatch():
            self.interleave()

    # ---------------------------------------------------------------- running
    def make_tracer(self, files, count_prefix=REPO + "/pydra/"):
        env = self

        plines = self.probe_lines

        def local(frame, event, arg):
            if event == "line":
                r = _rt.RT
                code = frame.f_code
                if plines:
                    pn = plines.get((code.co_filename, frame.f_lineno))
                    if pn is not None:
                        env.sim.probe(pn)
                if not r.in_rt:
                    r.point("line", (files[code.co_filename], code.co_name, frame.f_lineno))
            return local

        def tracer(frame, event, arg):
            fn = frame.f_code.co_filename
            if fn.startswith(count_prefix):
                env.calls += 1
                if env.calls > env.max_calls:
                    sys.settrace(None)
                    env.hang = "calls"
                    raise StepBudgetExceeded(f"more than {env.max_calls} pydra function calls in the controller")
            if fn in files:
                return local
            return None

        return tracer

    def run(self, fn):
        """Run fn() (which creates a Submitter and submits) in the controller under the
        simulated loop.  Returns ("ok", value) | ("exc", info) | ("hang", msg)."""
        import pydra.engine.submitter as sub
        import pydra.engine.job as job
        import pydra.engine.result as result
        import pydra.workers.cf as wcf

        crt = CtrlRT(self)
        _rt.install(crt)
        _rt._uuid_counter[0] = 0
        loop = SimLoop(self)
        self.loop = loop
        asyncio.set_event_loop(loop)
        env = self

        real_ppe = wcf.cf.ProcessPoolExecutor

        class _CfShim:
            """module-attribute shim so that ConcurrentFuturesWorker builds a SimPool"""

            def __getattr__(self, name):
                return getattr(cf, name)

            def ProcessPoolExecutor(self, n=None, *a, **k):  # noqa: N802
                env.pool.n_procs = max(1, int(n or env.pool.n_procs))
                return env.pool

        wcf.cf = _CfShim()
        real_cse = asyncio.create_subprocess_exec
        real_task = (asyncio.Task, asyncio.tasks.Task)
        DetTask._seq = 0
        asyncio.Task = asyncio.tasks.Task = DetTask
        if self.cluster is not None:
            asyncio.create_subprocess_exec = self.cluster.exec
        files = {sub.__file__: "submitter.py", job.__file__: "job.py", result.__file__: "result.py"}
        tracer = self.make_tracer(files if self.trace_ctl else {})
        status, val = "ok", None
        try:
            sys.settrace(tracer)
            try:
                val = fn()
            finally:
                sys.settrace(None)
        except StepBudgetExceeded as e:
            status, val = "hang", str(e)
        except SimDeadlock as e:
            status, val = "hang", "deadlock: " + str(e)
        except BaseException as e:  # noqa: BLE001
            if type(e).__name__ == "WallTimeout":
                raise
            status = "exc"
            val = {
                "type": type(e).__name__,
                "msg": str(e),
                "notes": list(getattr(e, "__notes__", [])),
                "tb": traceback.format_exc()[-6000:],
            }
        finally:
            sys.settrace(None)
            if self.hang and status != "hang":
                status, val = "hang", f"{self.hang}: (surfaced as {val if not isinstance(val, dict) else val.get('type')})"
            wcf.cf = cf
            asyncio.create_subprocess_exec = real_cse
            asyncio.Task, asyncio.tasks.Task = real_task
            try:
                # drop whatever is left on the loop without running it
                loop._ready.clear()
                loop._scheduled.clear()
                if not loop.is_closed() and not loop.is_running():
                    loop.close()
            except Exception:
                pass
            asyncio.set_event_loop(None)
            # abandoned coroutines (after a hang) run their finally blocks when collected:
            # do it now, deterministically, while the run directory still exists
            import gc

            val_keep = val
            gc.collect()
            val = val_keep
            _rt.set_rt(_rt.NullRT())
        return status, val

    def close(self):
        self.sim.shutdown()


def run_budgeted(fn, max_calls=3_000_000, prefix=REPO + "/pydra/"):
    """Run fn() in this process under a deterministic budget of pydra function calls
    (catches pure-Python spins such as a non-terminating sort without a wall clock).
    Returns ("ok", value) | ("exc", info) | ("hang", msg)."""
    calls = [0]

    def tracer(frame, event, arg):
        if frame.f_code.co_filename.startswith(prefix):
            calls[0] += 1
            if calls[0] > max_calls:
                sys.settrace(None)
                raise StepBudgetExceeded(f"more than {max_calls} pydra function calls")
        return None

    try:
        sys.settrace(tracer)
        try:
            return "ok", fn()
        finally:
            sys.settrace(None)
    except StepBudgetExceeded as e:
        return "hang", str(e)
    except BaseException as e:  # noqa: BLE001
        if type(e).__name__ == "WallTimeout":
            raise
        return "exc", {"type": type(e).__name__, "msg": str(e), "notes": list(getattr(e, "__notes__", [])), "tb": traceback.format_exc()[-3000:]}
    finally:
        import gc

        os.chdir("/")
        gc.collect()

"""Workload library: importable task definitions used by all checks.

They must live in an importable module (not __main__): cloudpickle pickles
__main__-defined classes by value and its class tracker rewrites the live class when a
result is unpickled.

Every body reports `enter`/`exit` events to the simulation runtime (or to the O_APPEND
event log VERIF_EVLOG when the process is not simulated) and stops at workload
pre-emption points, so that "the body is executing" is an interval a scheduler can
overlap with other actors.  Bodies consult a per-run fault plan (VERIF_FAULTPLAN, a JSON
file: key -> action) to fail deterministically.
"""

from __future__ import annotations

import dataclasses
import enum
import json
import os
import typing as ty

import attrs
from pydra.compose import python, workflow, shell  # noqa: F401

from . import rt as _rt


class PlannedFailure(Exception):
    pass


def _key(node, *vals):
    return f"{node}|" + "|".join(repr(v) for v in vals)


_plan_cache = {}


def _plan():
    path = os.environ.get("VERIF_FAULTPLAN")
    if not path:
        return {}
    try:
        st = os.stat(path)
    except OSError:
        return {}
    ck = (path, st.st_mtime_ns, st.st_size)
    if ck not in _plan_cache:
        _plan_cache.clear()
        with _rt.real_open(path) as f:
            _plan_cache[ck] = json.load(f)
    return _plan_cache[ck]


def _attempt(key) -> int:
    """1-based attempt number of this key in this run (durable, cross-process)."""
    d = os.environ.get("VERIF_ATTEMPTS")
    if not d:
        return 1
    import hashlib

    h = hashlib.sha1(key.encode()).hexdigest()[:16]
    n = 1
    while True:
        try:
            fd = _rt.real_os_open(
                os.path.join(d, f"{h}.{n}"), os.O_CREAT | os.O_EXCL | os.O_WRONLY, 0o644
            )
            os.close(fd)
            return n
        except FileExistsError:
            n += 1


def body(node, vals, npoints=1, produces=()):
    """Common body: events, pre-emption points, planned faults.  Returns the action."""
    r = _rt.get()
    key = _key(node, *vals)
    att = _attempt(key)
    r.event("enter", key, att, tuple(repr(p) for p in produces))
    for i in range(npoints):
        r.point("body", (node, i))
    action = _plan().get(key)
    if action == "raise" or (
        isinstance(action, str) and action.startswith("raise_once") and att == 1
    ):
        r.event("fail", key, att)
        raise PlannedFailure(f"planned failure of {key}")
    r.event("exit", key, att)
    return action


# ------------------------------------------------------------------ simple tasks


@python.define
def Add(x: int, k: int = 1) -> int:
    body("Add", (x, k))
    return x + k


@python.define
def Slow(x: int, npoints: int = 3) -> int:
    body("Slow", (x, npoints), npoints=npoints)
    return 2 * x + 1


@python.define(outputs=["p", "q"])
def Two(x: int) -> tuple[int, int]:
    body("Two", (x,))
    return x + 1, x * 10


@python.define
def Mul(x: int, y: int) -> int:
    body("Mul", (x, y))
    return x * y


@python.define
def Fail(x: int) -> int:
    body("Fail", (x,))
    raise PlannedFailure(f"Fail({x}) always fails")


@workflow.define
def Chain2(x: int) -> int:
    # the constructor is the "body" of a workflow job: it runs when the workflow is
    # expanded for execution, not on a cache hit
    _rt.get().event("wf-body", f"Chain2|{x!r}")
    a = workflow.add(Add(x=x, k=1), name="a")
    b = workflow.add(Slow(x=a.out, npoints=2), name="b")
    return b.out


# ------------------------------------------------------------------ token tasks


@python.define
def Tok(node: str, a: ty.Any = None, b: ty.Any = None, c: ty.Any = None) -> ty.Any:
    """Returns a structured token recording exactly which upstream tokens it saw."""
    tok = ("T", node, a, b, c)
    body(node, (a, b, c), produces=(tok,))
    return tok


@python.define
def TokList(node: str, n: int, a: ty.Any = None) -> list:
    """Returns a list of n tokens (a source for downstream splits)."""
    toks = [("L", node, i, a) for i in range(n)]
    body(node, (n, a), produces=toks)
    return toks


# ------------------------------------------------------------------ generated workflows


def _ref(ref, x, xs, nodes):
    k = ref[0]
    if k == "x":
        return x
    if k == "xs":
        return xs
    if k == "c":
        return ref[1]
    if k == "n":
        return nodes[ref[1]].out
    raise ValueError(ref)


@workflow.define
def GenWf(spec: ty.Any, x: ty.Any = None, xs: ty.Any = None) -> ty.Any:
    """Generic constructor: the generated graph `spec` is an *input*, so different graphs
    have different identities.  See simlib/wfgen.py for the spec format."""
    nodes = {}
    for nd in spec["nodes"]:
        ins = {f: _ref(r, x, xs, nodes) for f, r in nd["ins"].items()}
        if nd["kind"] == "wf":
            t = GenWf(spec=nd["sub"], x=ins.get("a"), xs=ins.get("b"))
        else:
            split = nd.get("split")
            fixed = {f: v for f, v in ins.items() if f != split}
            if nd["kind"] == "list":
                t = TokList(node=nd["label"], n=nd["n"], **fixed)
            else:
                t = Tok(node=nd["label"], **fixed)
            if split:
                t = t.split(**{split: ins[split]})
        if nd.get("combine"):
            t = t.combine(nd["combine"])
        nodes[nd["name"]] = workflow.add(t, name=nd["name"])
    for late in spec.get("late", []):
        # connections made after the fact through node input assignment (may close a cycle)
        setattr(nodes[late[0]].out._node.inputs, late[1], nodes[late[2]].out)
    return nodes[spec["out"]].out


@workflow.define
def TypedCycle(x: int, n: int = 3, back: ty.Any = None) -> int:
    """chain of typed Add nodes; `back` = [dst, src] closes a cycle through late assignment"""
    outs = []
    prev = x
    for i in range(n):
        o = workflow.add(Add(x=prev, k=i), name=f"t{i}")
        outs.append(o)
        prev = o.out
    if back is not None:
        outs[back[0]].out._node.inputs.x = outs[back[1]].out
    return outs[-1].out


# ------------------------------------------------------------------ failure variants (C13)


@python.define(outputs=["p", "q"])
def PartialDict(x: int, full: bool = False) -> tuple[int, int]:
    """returns a dict that lacks the declared output q unless `full`"""
    body("PartialDict", (x, full))
    if full:
        return {"p": x, "q": x * 2}
    return {"p": x}


@python.define
def Planned(x: int, tag: str = "") -> int:
    """fails according to the run's fault plan (raise / raise_once)"""
    body("Planned", (x, tag))
    return x * 3


@workflow.define
def WfPlanned(x: int, tag: str = "") -> int:
    a = workflow.add(Add(x=x, k=2), name="a")
    b = workflow.add(Planned(x=a.out, tag=tag), name="b")
    c = workflow.add(Add(x=b.out, k=5), name="c")
    return c.out


# ------------------------------------------------------------------ C06 variants


class Interp(enum.Enum):
    NEAREST = "nearest"
    CUBIC = "cubic"


class Thresh:
    """state only in an underscore-prefixed attribute behind a property"""

    def __init__(self, level):
        self._level = level

    @property
    def level(self):
        return self._level

    def __repr__(self):
        return f"Thresh({self._level!r})"


class Pub:
    def __init__(self, level):
        self.level = level

    def __repr__(self):
        return f"{type(self).__name__}({self.level!r})"


class Pub2(Pub):
    pass


class Slotted:
    __slots__ = ("a", "_b")

    def __init__(self, a, b):
        self.a = a
        self._b = b

    def __repr__(self):
        return f"Slotted({self.a!r},{self._b!r})"


@dataclasses.dataclass
class DC:
    a: int
    b: str


@attrs.define
class AT:
    a: int
    _b: int = 0


def describe(v):
    """canonical, type-revealing description of a value"""
    try:
        import numpy as np

        if isinstance(v, np.ndarray):
            return f"ndarray(shape={v.shape},dtype={v.dtype.str},data={v.tolist()!r})"
    except ImportError:
        pass
    if isinstance(v, (list, tuple)):
        return f"{type(v).__name__}[" + ",".join(describe(i) for i in v) + "]"
    if isinstance(v, dict):
        return "dict{" + ",".join(sorted(f"{describe(k)}:{describe(x)}" for k, x in v.items())) + "}"
    if isinstance(v, (set, frozenset)):
        return f"{type(v).__name__}{{" + ",".join(sorted(describe(i) for i in v)) + "}"
    return f"{type(v).__name__}({v!r})"


@python.define
def Describe(v: ty.Any) -> str:
    body("Describe", (describe(v),))
    return describe(v)


def make_closure_task(k):
    @python.define
    def Closure(x: int) -> int:
        return x * 100 + k

    return Closure


def make_default_task(k):
    @python.define
    def WithDefault(x: int) -> int:
        def inner(y, z=k):
            return y * 100 + z

        return inner(x)

    return WithDefault


# ------------------------------------------------------------------ C09


def _file_type():
    from fileformats.generic import File

    return File


@python.define
def ReadFile(f: _file_type()) -> str:
    with open(str(f), "rb") as fh:
        data = fh.read().decode()
    body("ReadFile", (data,))
    return data


# ------------------------------------------------------------------ C07


@python.define(xor=[("a", "b")])
def XorTask(a: int | None = None, b: int | None = None, c: int = 0) -> int:
    body("XorTask", (a, b, c))
    return (a or 0) * 10 + (b or 0) * 100 + c


# ------------------------------------------------------------------ C29: hooks that leave a trace


def _hook_log(name, job):
    path = os.path.join(os.path.dirname(str(job.cache_root)), f"hooks-{os.path.basename(str(job.cache_root))}.log")
    fd = _rt.real_os_open(path, os.O_CREAT | os.O_APPEND | os.O_WRONLY, 0o644)
    try:
        os.write(fd, f"{name} {job.checksum}\n".encode())
    finally:
        os.close(fd)


def hook_pre_run(job, *_):
    _hook_log("pre_run", job)


def hook_pre_run_task(job, *_):
    _hook_log("pre_run_task", job)


def hook_post_run_task(job, *_):
    _hook_log("post_run_task", job)


def hook_post_run(job, *_):
    _hook_log("post_run", job)


def logging_hooks():
    from pydra.engine.hooks import TaskHooks

    return TaskHooks(pre_run=hook_pre_run, pre_run_task=hook_pre_run_task, post_run_task=hook_post_run_task, post_run=hook_post_run)


def hooks_called(cache_root, checksum):
    path = os.path.join(os.path.dirname(str(cache_root)), f"hooks-{os.path.basename(str(cache_root))}.log")
    try:
        with _rt.real_open(path) as f:
            return [ln.split()[0] for ln in f if ln.split()[1:] == [checksum]]
    except FileNotFoundError:
        return []

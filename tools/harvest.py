#!/venv/bin/python
"""harvest.py <seeded-id> <property> <worktree> <what it needs to manifest>
Re-verifies a sub-agent's breaking change in its scratch worktree (demo fails with the change,
passes without) and stores it as /verif/seeded/<id>/ (patch.diff, demo files, meta.json)."""
import json, os, shutil, subprocess, sys, time

sid, prop, wt, needs = sys.argv[1:5]
env = dict(os.environ, PYTHONPATH=wt)
env.pop("NIPYPE_PYDRA_VERIF", None)


def sh(cmd, **kw):
    return subprocess.run(cmd, shell=True, capture_output=True, text=True, cwd=wt, **kw)


patch = sh("git diff -- pydra").stdout
assert patch.strip(), "no source change in the worktree"
t = time.time()
with_ = sh("timeout 900 /venv/bin/python demo.py", env=env)
sh("git stash -q -- pydra")
try:
    without = sh("timeout 900 /venv/bin/python demo.py", env=env)
finally:
    sh("git stash pop -q")
ok = with_.returncode != 0 and without.returncode == 0
print(f"demo with change: exit {with_.returncode}; without: exit {without.returncode}; confirmed={ok}; {time.time() - t:.0f}s")
if not ok:
    print(with_.stdout[-800:], with_.stderr[-800:], "----", without.stdout[-800:], without.stderr[-800:])
    sys.exit(1)
d = f"/verif/seeded/{sid}"
os.makedirs(d, exist_ok=True)
with open(f"{d}/patch.diff", "w") as f:
    f.write(patch)
for fn in os.listdir(wt):
    if fn.startswith("demo") and fn.endswith(".py"):
        shutil.copy(os.path.join(wt, fn), d)
meta = {
    "id": sid,
    "property": prop,
    "needs_to_manifest": needs,
    "files_changed": sorted({ln[6:] for ln in patch.splitlines() if ln.startswith("+++ b/")}),
    "verified": {
        "demo_with_change_exit": with_.returncode,
        "demo_without_change_exit": without.returncode,
        "demo_cmd": f"PYTHONPATH=<worktree> /venv/bin/python demo.py",
        "demo_with_change_tail": (with_.stdout + with_.stderr)[-400:],
        "existing_tests": "pending",
    },
    "base_commit": sh("git rev-parse HEAD").stdout.strip(),
}
with open(f"{d}/meta.json", "w") as f:
    json.dump(meta, f, indent=1)
print("stored", d)

#!/venv/bin/python
"""Runs the repository's pinned test command (guard off) and compares with BASELINE.json's stable_pass."""
import json, os, subprocess, sys, xml.etree.ElementTree as ET

out = sys.argv[1] if len(sys.argv) > 1 else "/dev/shm/pv/baseline.junit.xml"
base = json.load(open("/root/.vp/BASELINE.json"))
cmd = base["cmd"].replace("<file>", out)
env = {k: v for k, v in os.environ.items() if k not in ("NIPYPE_PYDRA_VERIF", "PYTHONPATH")}
p = subprocess.run(cmd, shell=True, env=env, capture_output=True, text=True)
print(p.stdout[-600:])
passed = set()
for tc in ET.parse(out).getroot().iter("testcase"):
    if not any(ch.tag in ("failure", "error", "skipped") for ch in tc):
        passed.add(f"{tc.get('classname')}::{tc.get('name')}")
want = set(base["stable_pass"])
missing = sorted(want - passed)
print(f"stable_pass={len(want)} passed_now={len(passed)} missing={len(missing)}")
for m in missing[:20]:
    print("  MISSING", m)
sys.exit(1 if missing else 0)

#!/venv/bin/python
"""Sensitivity runs.

  run_seeded.py reverts            : for every 'fixed:' entry of known_findings.json, reverse-apply that fix
                                     commit to /repo, run the property's quick check, expect a VIOLATION, restore.
  run_seeded.py seeded [ids...]    : for every /verif/seeded/<id>/patch.diff, apply it to /repo, run the quick check
                                     of the property named in meta.json (and any extra ones listed), restore.
Results are appended to /verif/seeded/results.jsonl (one JSON object per run).
/repo is always restored with `git checkout -- .` (never committed to).
"""
import json, os, re, subprocess, sys, time

V = "/verif"


def sh(cmd, **kw):
    return subprocess.run(cmd, shell=True, capture_output=True, text=True, **kw)


def clean():
    st = sh("git -C /repo status --porcelain -- pydra").stdout.strip()
    return st == ""


def run_check(pid, tier="quick", extra_env=None):
    env = dict(os.environ, VERIF_NO_EVIDENCE="1")
    env.update(extra_env or {})
    t = time.time()
    p = sh(f"/venv/bin/python {V}/vcheck.py {pid} --tier {tier} --no-selftest", env=env, cwd=V)
    viol = [ln for ln in p.stdout.splitlines() if ln.startswith("VIOLATION")]
    groups = [ln for ln in p.stdout.splitlines() if ln.startswith("violation groups")]
    harness = [ln for ln in p.stdout.splitlines() if ln.startswith("HARNESS")]
    return {"property": pid, "exit": p.returncode, "violations": len(viol), "groups": groups[:1], "harness": harness[:3], "wall_s": round(time.time() - t, 1), "tail": p.stdout[-600:] if p.returncode not in (0, 1) else ""}


def record(obj):
    with open(f"{V}/seeded/results.jsonl", "a") as f:
        f.write(json.dumps(obj) + "\n")
    print(json.dumps(obj)[:600], flush=True)


def in_worktree(tag, patch, pids, reverse_of=None):
    """run checks against a scratch worktree of /repo's HEAD carrying `patch` (VERIF_REPO);
    /repo itself is not touched, so several of these can run at once"""
    wt = f"/dev/shm/pv/wt-{tag}-{os.getpid()}"
    sh(f"git -C /repo worktree remove --force {wt}")
    p = sh(f"git -C /repo worktree add --detach {wt} HEAD")
    out = []
    try:
        if p.returncode:
            return [{"error": "worktree: " + p.stderr[-200:]}]
        sh(f"cp /repo/pydra/utils/_version.py {wt}/pydra/utils/_version.py")
        if reverse_of:
            d = sh(f"git -C /repo diff {reverse_of}~1 {reverse_of} -- pydra").stdout
            p = subprocess.run(f"git -C {wt} apply -R", shell=True, input=d, capture_output=True, text=True)
        else:
            p = sh(f"git -C {wt} apply {patch}")
        if p.returncode:
            return [{"error": "cannot apply: " + p.stderr[-200:]}]
        for pid in pids:
            out.append(run_check(pid, extra_env={"VERIF_REPO": wt}))
    finally:
        sh(f"git -C /repo worktree remove --force {wt}")
    return out


def main_wt():
    """run_seeded.py wt [-j N] seeded <ids...> | wt [-j N] reverts [<commit|prop>...]"""
    from concurrent.futures import ThreadPoolExecutor

    args = sys.argv[2:]
    jobs = 1
    if args[0] == "-j":
        jobs = int(args[1])
        args = args[2:]
    mode, only = args[0], args[1:]
    work = []
    if mode == "patch":  # wt patch <file.diff> <prop>...: an arbitrary patch (e.g. two fixes reverted together)
        tag = os.path.basename(only[0])[:-5]
        work.append((tag, os.path.abspath(only[0]), only[1:], None, {"kind": "revert", "commit": tag, "what": "fixes reverted together"}))
    elif mode == "reverts":
        kf = json.load(open(f"{V}/known_findings.json"))
        for line in kf["fixed"]:
            pid, commit, what = re.match(r"fixed: property=(\w+) (\w+) (.*)", line).groups()
            if only and commit not in only and pid not in only:
                continue
            manual = f"{V}/seeded/reverts/{commit}.diff"
            base = {"kind": "revert", "commit": commit, "what": what[:120]}
            if os.path.exists(manual):
                work.append((commit, manual, [pid], None, base))
            else:
                work.append((commit, None, [pid], commit, base))
    else:
        ids = only or sorted(d for d in os.listdir(f"{V}/seeded") if os.path.isfile(f"{V}/seeded/{d}/meta.json"))
        for sid in ids:
            meta = json.load(open(f"{V}/seeded/{sid}/meta.json"))
            work.append((sid, f"{V}/seeded/{sid}/patch.diff", [meta["property"]] + meta.get("also_check", []), None, {"kind": "seeded", "id": sid}))

    def one(w):
        tag, patch, pids, rev, base = w
        for r in in_worktree(tag, patch, pids, rev):
            r.update(base)
            if "error" not in r:
                r["caught"] = r["exit"] == 1
            record(r)

    with ThreadPoolExecutor(jobs) as ex:
        list(ex.map(one, work))


def main():
    mode = sys.argv[1]
    if mode == "wt":
        return main_wt()
    assert clean(), "/repo has uncommitted changes"
    if mode == "reverts":
        kf = json.load(open(f"{V}/known_findings.json"))
        only = sys.argv[2:]
        for line in kf["fixed"]:
            m = re.match(r"fixed: property=(\w+) (\w+) (.*)", line)
            pid, commit, what = m.groups()
            if only and commit not in only and pid not in only:
                continue
            manual = f"{V}/seeded/reverts/{commit}.diff"  # `git revert --no-commit` output where -R conflicts
            if os.path.exists(manual):
                p = subprocess.run(f"git -C /repo apply {manual}", shell=True, capture_output=True, text=True)
            else:
                d = sh(f"git -C /repo diff {commit}~1 {commit} -- pydra").stdout
                p = subprocess.run("git -C /repo apply -R", shell=True, input=d, capture_output=True, text=True)
            if p.returncode:
                record({"kind": "revert", "commit": commit, "property": pid, "error": "cannot reverse-apply: " + p.stderr[-200:]})
                sh("git -C /repo checkout -- .")
                continue
            try:
                r = run_check(pid)
            finally:
                sh("git -C /repo checkout -- .")
            r.update({"kind": "revert", "commit": commit, "what": what[:120], "caught": r["exit"] == 1})
            record(r)
    else:
        ids = sys.argv[2:] or sorted(d for d in os.listdir(f"{V}/seeded") if os.path.isdir(f"{V}/seeded/{d}"))
        for sid in ids:
            meta = json.load(open(f"{V}/seeded/{sid}/meta.json"))
            p = sh(f"git -C /repo apply {V}/seeded/{sid}/patch.diff")
            if p.returncode:
                record({"kind": "seeded", "id": sid, "error": "cannot apply: " + p.stderr[-200:]})
                sh("git -C /repo checkout -- .")
                continue
            try:
                for pid in [meta["property"]] + meta.get("also_check", []):
                    r = run_check(pid)
                    r.update({"kind": "seeded", "id": sid, "caught": r["exit"] == 1})
                    record(r)
            finally:
                sh("git -C /repo checkout -- .")
    assert clean()


if __name__ == "__main__":
    main()

#!/venv/bin/python
"""Sensitivity runs.

  run_seeded.py reverts            : for every 'fixed:' entry of known_findings.json, reverse-apply that fix
                                     commit to /repo, run the property's quick check, expect a VIOLATION, restore.
  run_seeded.py seeded [ids...]    : for every /verif/seeded/<id>/patch.diff, apply it to /repo, run the quick check
                                     of the property named in meta.json (and any extra ones listed), restore.
Results are appended to /verif/seeded/results.jsonl (one JSON object per run).
/repo is always restored with `git checkout -- .` (never committed to).
"""
import json, os, re, subprocess, sys, time

V = "/verif"


def sh(cmd, **kw):
    return subprocess.run(cmd, shell=True, capture_output=True, text=True, **kw)


def clean():
    st = sh("git -C /repo status --porcelain -- pydra").stdout.strip()
    return st == ""


def run_check(pid, tier="quick", extra_env=None):
    env = dict(os.environ, VERIF_NO_EVIDENCE="1")
    env.update(extra_env or {})
    t = time.time()
    p = sh(f"/venv/bin/python {V}/vcheck.py {pid} --tier {tier} --no-selftest", env=env, cwd=V)
    viol = [ln for ln in p.stdout.splitlines() if ln.startswith("VIOLATION")]
    groups = [ln for ln in p.stdout.splitlines() if ln.startswith("violation groups")]
    harness = [ln for ln in p.stdout.splitlines() if ln.startswith("HARNESS")]
    return {"property": pid, "exit": p.returncode, "violations": len(viol), "groups": groups[:1], "harness": harness[:3], "wall_s": round(time.time() - t, 1), "tail": p.stdout[-600:] if p.returncode not in (0, 1) else ""}


def record(obj):
    with open(f"{V}/seeded/results.jsonl", "a") as f:
        f.write(json.dumps(obj) + "\n")
    print(json.dumps(obj)[:600], flush=True)


def main():
    mode = sys.argv[1]
    assert clean(), "/repo has uncommitted changes"
    if mode == "reverts":
        kf = json.load(open(f"{V}/known_findings.json"))
        only = sys.argv[2:]
        for line in kf["fixed"]:
            m = re.match(r"fixed: property=(\w+) (\w+) (.*)", line)
            pid, commit, what = m.groups()
            if only and commit not in only and pid not in only:
                continue
            d = sh(f"git -C /repo diff {commit}~1 {commit} -- pydra").stdout
            p = subprocess.run("git -C /repo apply -R", shell=True, input=d, capture_output=True, text=True)
            if p.returncode:
                record({"kind": "revert", "commit": commit, "property": pid, "error": "cannot reverse-apply: " + p.stderr[-200:]})
                sh("git -C /repo checkout -- .")
                continue
            try:
                r = run_check(pid)
            finally:
                sh("git -C /repo checkout -- .")
            r.update({"kind": "revert", "commit": commit, "what": what[:120], "caught": r["exit"] == 1})
            record(r)
    else:
        ids = sys.argv[2:] or sorted(d for d in os.listdir(f"{V}/seeded") if os.path.isdir(f"{V}/seeded/{d}"))
        for sid in ids:
            meta = json.load(open(f"{V}/seeded/{sid}/meta.json"))
            p = sh(f"git -C /repo apply {V}/seeded/{sid}/patch.diff")
            if p.returncode:
                record({"kind": "seeded", "id": sid, "error": "cannot apply: " + p.stderr[-200:]})
                sh("git -C /repo checkout -- .")
                continue
            try:
                for pid in [meta["property"]] + meta.get("also_check", []):
                    r = run_check(pid)
                    r.update({"kind": "seeded", "id": sid, "caught": r["exit"] == 1})
                    record(r)
            finally:
                sh("git -C /repo checkout -- .")
    assert clean()


if __name__ == "__main__":
    main()

#!/venv/bin/python
"""Runs every check of MANIFEST.json (quick or thorough) and prints a summary table."""
import json, os, subprocess, sys, time

tier = sys.argv[1] if len(sys.argv) > 1 else "quick"
only = sys.argv[2:]
man = json.load(open("/verif/MANIFEST.json"))
rows = []
for c in man["checks"]:
    pid = c["property_id"]
    if only and pid not in only:
        continue
    cmd = c["quick_cmd"] if tier == "quick" else c.get("thorough_cmd", c["quick_cmd"])
    ev = c["evidence_file"]
    if os.path.exists(ev):
        os.unlink(ev)
    t = time.time()
    p = subprocess.run(cmd, shell=True, cwd="/verif", capture_output=True, text=True)
    dt = time.time() - t
    lines = [ln for ln in p.stdout.splitlines() if ln.startswith(("VIOLATION", "KNOWN-FINDING", "HARNESS"))]
    okev = os.path.exists(ev)
    rows.append((pid, p.returncode, round(dt, 1), okev, len([x for x in lines if x.startswith("VIOLATION")]), len([x for x in lines if x.startswith("KNOWN")]), len([x for x in lines if x.startswith("HARNESS")])))
    print(rows[-1], flush=True)
    if p.returncode not in (0,):
        print(p.stdout[-1500:])
        print(p.stderr[-800:])
print("\nproperty exit wall evidence violations known harness")
for r in rows:
    print(*r)
v = subprocess.run(["python3-vt", "-c", """
import json, jsonschema, glob
sch = json.load(open('/root/.vp/EVIDENCE.schema.json'))
for f in sorted(glob.glob('/verif/evidence/*.json')):
    try:
        jsonschema.validate(json.load(open(f)), sch); print('valid', f)
    except Exception as e:
        print('INVALID', f, str(e)[:200])
"""], capture_output=True, text=True)
print(v.stdout, v.stderr[-300:])
sys.exit(1 if any(r[1] != 0 for r in rows) else 0)

#!/venv/bin/python
"""(Re)writes section 11 of DESIGN.md: narrative + the table printed by tools/sens_table.py."""
import subprocess

P = "/verif/DESIGN.md"
MARK = "## 11. Sensitivity: which check catches which breaking change"
table = subprocess.run(["/venv/bin/python", "/verif/tools/sens_table.py"], capture_output=True, text=True, check=True).stdout
text = f"""{MARK}

Two sources of breaking changes were used, neither of them written by the author of the
checks with the checks in view:

* **Sub-agent changes** (`/verif/seeded/<id>/`: `patch.diff`, the author's stand-alone
  demonstration, `meta.json`).  Each was produced by a fresh agent that was given only the
  text of one property and a scratch git worktree of /repo - nothing from /verif - and
  asked for a small, plausible change that breaks the property while the package still
  imports and the existing tests still pass.  A change was kept only after
  `tools/harvest.py` had re-run the demonstration both ways in the worktree (exit != 0
  with the change, exit 0 without), and `tools/confirm_tests.py` ran the repository's
  pinned test command on a scratch worktree carrying the change (`meta.json ->
  verified.existing_tests`: the set of stable-pass tests that no longer pass must be empty;
  where the full run (1.5-2.5 h each on the loaded machine) did not fit into the budget the
  field says so and the author's own subset run is what stands; 24 of the 44 changes have the full-suite confirmation).  Four rounds, 44 changes;
  later rounds were told which ideas were already taken for the property.
* **Reverted fixes**: every `fix:` commit of /repo reverse-applied on its own
  (`git revert --no-commit` output kept in `seeded/reverts/` where a plain reverse apply
  conflicts), i.e. the defects the checks had found on the pinned tree, re-introduced.

Both are run by `tools/run_seeded.py` (`wt -j N seeded <ids>` / `wt reverts`): the change
is applied to a scratch worktree of /repo's HEAD, the property's **quick** check is run
against it (`VERIF_REPO=<worktree>`, seed 0, exactly the command of MANIFEST.json) and
the worktree is removed; /repo itself is never modified.  "caught" = exit 1 with a
VIOLATION line and a replay file.

What the exercise changed in the checks (each of these was a miss or a near miss first):

* C10 got the scenarios `preerrored` (an errored cached result, then concurrent
  resubmission: `C10-lockfree-fastpath-latches-errored`) and `wf-async` (two processes
  submitting one workflow through the asynchronous lock: `C10-pydrafilelock-released-in-aenter`),
  and counts the workflow constructor's executions, not only the task bodies.
* C11 has a workflow that nests another workflow (`C11-rerun-not-passed-to-nested-workflows`)
  and a workflow with independent nodes submitted under `max_concurrent`; it leaves crash
  residues also *without* the dead process's lock and info files (a copied
  cache) - `C11-load-result-clears-stale-dirs` spares locked directories.
* C12 got the `pool` cases (the killed process is a pool worker and the submission goes
  on) for `C12-rmtree-only-if-result-exists`, and resubmission through the *asynchronous*
  path after the crash of a workflow submission (`C12-async-lock-waits-for-file-to-vanish`:
  the stale lock of the dead process is a workflow lock and the waiter is `PydraFileLock`);
  C18 places its stale locks on workflow jobs as well for the same reason.
* C14/C15/C16/C17/C18 vary `max_concurrent` (`C15-only-newly-runnable-returned`,
  `C17-cut-jobs-dropped-from-queued`, `C17-futured-marked-before-room-check`); C16 judges
  the number of jobs *dispatched to worker processes* (`limit-exceeded-dispatch`), not only
  overlapping bodies, and uses two-level graphs (`C16-room-checked-once-per-pass`); this
  also exposed the genuine defect repaired by bc850255.
* C15 generates the same identity at two workflow levels (`C15-cache-check-outside-lock`).
* C28 distinguishes "accounting record not there yet" from "job gone" in the fake qacct
  and has the clause `needless-resubmission` (`C28-sge-empty-accounting-means-evicted`);
  scheduler kills are aimed *inside file writes* of the payload (torn `_info.json`,
  `_job.pklz`, `_result.pklz`), which makes the reverts of b380cd4e / 75c6ffdf reliably
  visible at every seed and exposed the genuine defect repaired by ef17fac3.
* C13 has shell commands killed by a signal (`C13-negative-returncode-not-failure`) and a
  workflow with two independent failing-once nodes submitted under `max_concurrent`
  (a side remark of the agent behind `C13-partial-dict-check-removed`; exposed the genuine
  defect repaired by 1df0a223).
* C06 has values of user classes (enum members, private/public attributes, slots,
  dataclass, attrs) and path-vs-str pairs (`C06-private-attrs-not-hashed`).
* C07 generates dicts with partially ordered keys on purpose
  (`C07-mapping-keys-plain-sorted` was missed by the 24 programs of the quick tier before).
* C29 installs logging hooks on half of the jobs and compares the calls made in the
  building session with those made by the deserialized job (`C29-hooks-dropped-on-pickle`).
* C30 keeps one task object per definition and gives it other inputs by assignment,
  `attrs.evolve` or copy (`C30-constructed-memo-copied-by-evolve`); this exposed the genuine
  defect repaired by 996fbf80.

Rows marked "see note" are changes that no longer break the property on the current tree
(a later fix covers them) or that cannot be applied in isolation; the note says what was
done instead.  Rows of kind "other property's check" are extra runs of neighbouring checks
against a change written for another property: a "no" there is the right answer when that
property still holds under the change (e.g. `C17-futured-marked-before-room-check` makes a
workflow *fail* after the stall timeout - C17 and C15/C16 report it, C18 "every submission
terminates" rightly does not).

{table}
"""
s = open(P).read()
i = s.find(MARK)
if i >= 0:
    s = s[:i].rstrip("\n") + "\n\n"
else:
    s = s.rstrip("\n") + "\n\n---------------------------------------------------------------------------------------\n\n"
open(P, "w").write(s + text)
print("section 11 written,", len(table.splitlines()) - 2, "rows")

#!/venv/bin/python
"""seed_sweep.py <seed>... : runs every quick check under the given VERIF_SEEDs (no self-test) and logs alarms."""
import json, os, subprocess, sys, time

man = json.load(open("/verif/MANIFEST.json"))
for seed in sys.argv[1:]:
    for c in man["checks"]:
        pid = c["property_id"]
        if os.environ.get("VERIF_PROPS") and pid not in os.environ["VERIF_PROPS"].split(","):
            continue
        env = dict(os.environ, VERIF_SEED=seed, VERIF_NO_EVIDENCE="1")
        t = time.time()
        p = subprocess.run(c["quick_cmd"] + " --no-selftest", shell=True, cwd="/verif", capture_output=True, text=True, env=env)
        bad = [ln for ln in p.stdout.splitlines() if ln.startswith(("VIOLATION", "HARNESS", "  clause="))]
        print(json.dumps({"seed": seed, "property": pid, "exit": p.returncode, "wall": round(time.time() - t), "alarms": [b[:300] for b in bad[:6]]}), flush=True)

#!/venv/bin/python
"""Determinism proof on a larger sample than the per-run self-test.

For every claimed check: run the first N cases of the quick plan for each given seed
twice, at two different worker counts (2 and 7 worker processes, i.e. different case ->
process assignment, different actor reuse, different machine load), each in a fresh
vcheck.py interpreter, and compare per case (digest, scheduler steps, length of the
decision trace).  Any difference is printed and the tool exits 1.

usage: determinism_sweep.py [-n CASES] [--props C10,C12] SEED [SEED ...]
Appends one line per (property, seed) to /verif/seeded/determinism.jsonl.
"""
import argparse
import json
import os
import subprocess
import sys
import tempfile
import time

ap = argparse.ArgumentParser()
ap.add_argument("-n", type=int, default=120)
ap.add_argument("--props", default="")
ap.add_argument("seeds", nargs="+")
a = ap.parse_args()
man = json.load(open("/verif/MANIFEST.json"))
props = [c["property_id"] for c in man["checks"]]
if a.props:
    props = [p for p in props if p in a.props.split(",")]
bad = 0
for seed in a.seeds:
    for p in props:
        dumps = []
        t = time.time()
        codes = []
        for jobs in (2, 7):
            fd, path = tempfile.mkstemp(dir="/dev/shm", suffix=".dump")
            os.close(fd)
            env = dict(os.environ, VERIF_SEED=str(seed), VERIF_DUMP=path, VERIF_NO_EVIDENCE="1")
            r = subprocess.run(
                ["/venv/bin/python", "/verif/vcheck.py", p, "--cases", str(a.n), "--jobs", str(jobs), "--no-selftest"],
                env=env, cwd="/verif", capture_output=True, text=True,
            )
            codes.append(r.returncode)
            dumps.append([json.loads(x) for x in open(path)])
            os.unlink(path)
        # compared: case id, digest of the event log, scheduler steps, length of the decision
        # trace (the sampled description may legitimately contain the scratch directory name)
        diff = [(x[0], x[1], y[1]) for x, y in zip(dumps[0], dumps[1]) if x[:4] != y[:4]]
        rec = {"property": p, "seed": seed, "cases": len(dumps[0]), "jobs": [2, 7], "mismatches": len(diff), "exit": codes, "wall": round(time.time() - t)}
        print(json.dumps(rec), flush=True)
        for d in diff[:5]:
            print("   MISMATCH", d, flush=True)
        bad += len(diff) + (len(dumps[0]) != len(dumps[1]))
        with open("/verif/seeded/determinism.jsonl", "a") as f:
            f.write(json.dumps(rec) + "\n")
sys.exit(1 if bad else 0)

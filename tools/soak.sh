#!/bin/sh
# Thorough-tier soak, meant for `vp run --with-repo --timeout 12h -- sh tools/soak.sh <seed> <prop>...`
# Runs against the snapshot of /repo's HEAD ($VP_RUN_REPO) when there is one, so that
# work going on in /repo does not disturb it.  Not evidence: re-run in /verif what it finds.
seed=$1; shift
if [ -n "$VP_RUN_REPO" ]; then
  cp /repo/pydra/utils/_version.py "$VP_RUN_REPO/pydra/utils/_version.py"
  export VERIF_REPO="$VP_RUN_REPO"
fi
export VERIF_NO_EVIDENCE=1 VERIF_SEED=$seed
for p in "$@"; do
  echo "=== $p seed=$seed start $(date +%H:%M:%S)"
  /venv/bin/python vcheck.py "$p" --tier thorough 2>&1 | grep -v "conda\|^  File\|^    " | tail -40
  echo "=== $p exit=$? end $(date +%H:%M:%S)"
done

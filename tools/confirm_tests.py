#!/venv/bin/python
"""confirm_tests.py <seeded-id>... : runs the repository's pinned test command on a scratch worktree with the
seeded patch applied and records in meta.json whether every test of BASELINE stable_pass still passes."""
import json, os, shutil, subprocess, sys, time, xml.etree.ElementTree as ET

base = json.load(open("/root/.vp/BASELINE.json"))
want = set(base["stable_pass"])
for sid in sys.argv[1:]:
    d = f"/verif/seeded/{sid}"
    meta = json.load(open(f"{d}/meta.json"))
    wt = f"/tmp/wt-confirm-{sid}"
    subprocess.run(f"git -C /repo worktree remove --force {wt}", shell=True, capture_output=True)
    r = subprocess.run(f"git -C /repo worktree add -q --detach {wt} {meta.get('base_commit', 'HEAD')}", shell=True, capture_output=True, text=True)
    assert r.returncode == 0, r.stderr
    try:
        shutil.copy("/repo/pydra/utils/_version.py", f"{wt}/pydra/utils/_version.py")
        r = subprocess.run(f"git -C {wt} apply {d}/patch.diff", shell=True, capture_output=True, text=True)
        assert r.returncode == 0, r.stderr
        out = f"/dev/shm/pv/confirm-{sid}.xml"
        cmd = base["cmd"].replace("cd /repo", f"cd {wt}").replace("<file>", out)
        env = {k: v for k, v in os.environ.items() if k not in ("NIPYPE_PYDRA_VERIF", "PYTHONPATH")}
        t = time.time()
        p = subprocess.run(cmd, shell=True, env=env, capture_output=True, text=True)
        passed = set()
        for tc in ET.parse(out).getroot().iter("testcase"):
            if not any(ch.tag in ("failure", "error", "skipped") for ch in tc):
                passed.add(f"{tc.get('classname')}::{tc.get('name')}")
        missing = sorted(want - passed)
        # make sure the tests really imported the patched tree
        meta["verified"]["existing_tests"] = {"cmd": "BASELINE.json cmd in a scratch worktree with the patch applied", "stable_pass": len(want), "missing": missing[:10], "n_missing": len(missing), "summary": p.stdout.strip().splitlines()[-1] if p.stdout.strip() else "", "wall_s": round(time.time() - t)}
        json.dump(meta, open(f"{d}/meta.json", "w"), indent=1)
        print(sid, "missing", len(missing), missing[:5], meta["verified"]["existing_tests"]["summary"], flush=True)
    finally:
        subprocess.run(f"git -C /repo worktree remove --force {wt}", shell=True, capture_output=True)

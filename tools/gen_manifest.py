#!/venv/bin/python
"""Regenerates /verif/MANIFEST.json from the table below (kept next to the checks)."""
import json, os

V = os.path.dirname(os.path.dirname(os.path.abspath(__file__)))
PY = "/venv/bin/python /verif/vcheck.py"

CHECKS = {
    "C10": dict(
        engine="lockstep",
        category="exploration",
        text="Seeded search over interleavings of 2-4 real submitter processes (single-stepped at Python-line, sleep, write-chunk and body points, simulated clock, stall faults) contending for one job through pydra's real lock/check/run/save protocol - plain/slow task, pre-existing result, pre-existing errored result, two-node workflow - and of one asynchronous submitter (simulated pool, PydraFileLock) racing sequential ones on the same workflow; oracle: every body (incl. the workflow's own constructor) executed exactly once, every submitter gets the expected outputs, all terminate. Sampling, not enumeration.",
        note="Trusts filelock's O_EXCL protocol as a dependency (but runs it for real); pre-emption granularity is a Python line of job.py/result.py (and filelock in fine runs); one host, tmpfs.",
        technique="deterministic simulation: lockstep-scheduled real processes, seeded schedule search, stall faults",
        ref="8/C10",
    ),
}

SIMLOOP_NOTE = "Runs the real Submitter/NodeExecution/worker/Job code; ProcessPoolExecutor and the selector loop are replaced by SimPool/SimLoop (stubs listed in evidence). Sampling of schedules, not enumeration; PYTHONHASHSEED pinned to 0 (pydra's own set iteration makes the controller's line sequence hash-seed dependent)."
CHECKS.update({
    "C12": dict(engine="lockstep", category="fault_enumeration",
        text="For each scenario (plain, slow body, over an errored result, rerun over an existing result, two-node workflow, failing task, foreign-host marker) the ordered list of pre-emption points of the executing process is recorded by a dry run and the process is SIGKILLed at every (quick: strided) index; every (quick: strided) truncation length of _result.pklz is tried; a fresh submission under the simulated clock must terminate within 120 simulated s with exactly the expected outputs, and may skip the body only if a complete successful result was on disk. Also sampled: a pool worker of an asynchronous workflow submission SIGKILLed at a seeded step, then a resubmission. Thorough adds fine (filelock-line) points, a second crash during recovery and a racing second submitter.",
        note="Crash = SIGKILL (page cache survives; power loss not modelled). Points are Python lines of job.py/result.py (+filelock), sleeps, write chunks, body points; a line doing several file operations is atomic. Real filelock stale-marker recovery against really dead PIDs.",
        technique="deterministic simulation: crash-point enumeration with SIGKILL of lockstep-stepped real processes, torn writes, simulated clock", ref="8/C12"),
    "C14": dict(engine="simloop", category="exploration",
        text="Generated workflows (2-6 nodes, splits, nesting) with a Chooser-picked subset of failing jobs run on the simulated pool under seeded schedules that interleave workers with the polling loop at line granularity (so a job is seen 'running' before it fails). Oracle from tokens/events: independent jobs executed (independence judged between nodes, as pydra resolves it; sibling states of a failing job included), data-dependent jobs never executed, submission fails, error text names every failed job.",
        note=SIMLOOP_NOTE + " 'Depends' is judged both at node and data level; jobs only node-level dependent are unconstrained.",
        technique="deterministic simulation: virtual-time asyncio loop + simulated process pool, seeded schedule search with injected job failures", ref="8/C14"),
    "C15": dict(engine="simloop", category="exploration",
        text="Generated workflows run under the sequential loop (reference) and on the simulated pool under seeded schedules; from the body enter/exit event log: no body starts before every producer of a token it received has exited; every job identity of the reference is executed exactly once (incl. duplicate-identity nodes).",
        note=SIMLOOP_NOTE, technique="deterministic simulation: virtual-time asyncio loop + simulated process pool, event-order oracle over seeded schedules", ref="8/C15"),
    "C16": dict(engine="simloop", category="exploration",
        text="Wide workflows (split and parallel nodes, 2-12 jobs) with max_concurrent=k for k in 1..jobs on a pool larger than the job count, schedules biased to keep workers inside their bodies; invariant at every event: number of bodies between enter and exit <= k, and number of jobs being run by pool processes <= k.",
        note=SIMLOOP_NOTE + " 'Executing' is read in its weakest sense (inside the task body).",
        technique="deterministic simulation: simulated pool + seeded schedules, concurrency invariant on the event log", ref="8/C16"),
    "C17": dict(engine="simloop", category="exploration",
        text="Differential: each generated workflow is run under the debug worker (reference) and under several seeded schedules of the simulated pool with 1-8 processes and max_concurrent 1..n/unlimited; outputs must be structurally equal (or both fail).",
        note=SIMLOOP_NOTE + " Agreement with a reference semantics of the state algebra is not claimed (C03).",
        technique="deterministic simulation: differential runs of sequential loop vs seeded pool schedules", ref="8/C17"),
    "C18": dict(engine="simloop", category="exploration",
        text="Bounded liveness: workflows with a cycle closed through node-input assignment (untyped and typed) under both loops, and acyclic workflows with one progress-removing fault (pool worker SIGKILLed, result file lost, stale lock of a dead local PID, stale lock of another host), and acyclic workflows under the sequential loop with a max_concurrent limit, must return or raise within deterministic budgets (pydra function calls, scheduler steps, 600 simulated s).",
        note=SIMLOOP_NOTE + " Termination is judged by deterministic budgets, never a wall clock.",
        technique="deterministic simulation: virtual time + fault injection (kill, lost file, stale locks), bounded-liveness oracle", ref="8/C18"),
})

HIST_NOTE = "Histories run through pydra's public API in one process (process-global pydra state reset between cases); 'cf' submissions run on the simloop engine; sequential submissions run under a virtual clock (a sleep-forever becomes a hang verdict). Sampling of histories, not enumeration."
CHECKS.update({
    "C06": dict(engine="histsim", category="exploration",
        text="Finite pool of variant pairs differing in exactly one semantically relevant aspect (function body edited on disk, closure value; shell executable/argstr/position/sep/formatter; input content/type/nesting, path vs str, values of user classes (enum members, private/public attributes, slots, dataclass, attrs fields, same state in two classes); numpy shape/dtype/content/memory layout/strides/byte order) x seeded histories of 2-8 submissions of both members and unrelated tasks into one cache root (orders, repeats, reruns, both workers); oracle: every returned output equals executing now (function called / argv run directly) and the pair's cache identities differ.",
        note=HIST_NOTE + " The pair pool is finite and listed in the evidence; aspects outside it are not covered.",
        technique="deterministic simulation: seeded submission histories against an executable value model", ref="8/C06"),
    "C07": dict(engine="sessim", category="exploration",
        text="Generated programs (~40 steps) executed by three fresh interpreter sessions with different PYTHONHASHSEEDs and different dict/set insertion orders: hashes of generated values (nested containers incl. frozensets of frozensets and mixed-type sets, numbers, strings, bytes, paths, numpy arrays, files; optionally after a cloudpickle round trip), task checksums, an xor-group task submitted split, and real submissions that later sessions must find in the renamed cache root without executing any body.",
        note="Nothing is stubbed inside a session; the searched dimension is the hash seed, insertion order, pickling and cache-root path. Sampling of values from a generator.",
        technique="deterministic simulation: interpreter sessions as nodes sharing only durable state, seeded programs and hash seeds", ref="8/C07"),
    "C29": dict(engine="sessim", category="exploration",
        text="(task, submitter configuration) pairs are built and cloudpickled in one fresh interpreter, unpickled/compared/run (load_and_run) in a second with another hash seed, and the result file is read back in a third: equal checksum, equal public submitter/worker state (debug, cf, slurm, sge configurations, read-only caches, audit flags, max_concurrent), outputs equal to an in-session run, and the same hook calls (logging hooks installed on half of the jobs) as in the building session. Every job of the simloop checks additionally crosses cp.dumps -> worker process -> result file -> parent.",
        note="Nothing is stubbed inside a session. 'Public state' is the worker's attrs fields (minus loop/pool/internal dicts) and the submitter's configuration attributes.",
        technique="deterministic simulation: interpreter sessions as nodes exchanging pickled jobs and result files", ref="8/C29"),
    "C09": dict(engine="histsim", category="exploration",
        text="Seeded histories of file operations (write same/different size, advance clock by less/more than the resolution, restore mtime, rename over, copy preserving timestamps) interleaved with hash computations and task submissions, for files and a directory, under a simulated file-system clock with per-run timestamp resolution 1 ns .. 2 s; oracle: every hash equals the hash computed with an empty persistent cache, a submission returns the current content.",
        note="Kernel timestamps of tracked inodes and time.time/datetime.now are replaced by the simulated clock; POSIX timestamp semantics assumed (mtime settable, ctime not).",
        technique="deterministic simulation: simulated file-system clock, seeded operation histories vs cache-free reference hash", ref="8/C09"),
    "C11": dict(engine="histsim", category="exploration",
        text="Seeded histories of 3-8 submissions over two cache roots and three read-only locations with random rerun/propagate_rerun flags and read-only lists, tasks and workflows sharing inner identities, both workers, plus residues left by really SIGKILLing a process that executes a job at a seeded point (with or without the dead process's lock/info files left in place); reference model: per location the identities with a complete successful result; oracle: executions per identity, outputs, and byte-identical trees of every location that is not the cache root.",
        note=HIST_NOTE, technique="deterministic simulation: seeded histories + crash residues vs executable store model", ref="8/C11"),
    "C13": dict(engine="histsim", category="exploration",
        text="Seeded histories over identities that fail in different ways (python raise always / first attempt only, shell non-zero exit or death by signal always / first attempt only, dict return lacking a declared output, workflow with a failing node) and succeeding variants, both workers; oracle vs store model: failing executions raise and carry the recorded failure, are never stored, the next submission executes again and a now-succeeding body returns the value model's outputs, never NOTHING.",
        note=HIST_NOTE, technique="deterministic simulation: seeded histories with injected body failures vs executable store model", ref="8/C13"),
    "C28": dict(engine="simloop+cluster", category="exploration",
        text="The real SlurmWorker/SgeWorker run on the virtual-time loop against a fake scheduler reached through asyncio.create_subprocess_exec: seeded user argument strings and per-job response scripts (pending, running, completed, failed, cancelled/timeout/preempted/node-fail/evicted with the real payload process SIGKILLed at a seeded point or inside a seeded file write (torn info/job/result records), further lives after requeue, lagging accounting); oracle: complete iff the scheduler says completed and the result loads, failed when it says failed, requeued/resubmitted (not failed) after a kill, user job-name/output/error honoured exactly once.",
        note="The fake CLIs encode my reading of the sbatch/squeue/sacct/scontrol/qsub/qstat/qacct formats as parsed by the workers' regexes (stub). The payload extracted from the generated batch script runs the real load_and_run in a lockstep actor.",
        technique="deterministic simulation: virtual-time loop + simulated batch scheduler with fault scripts (kills, lagging accounting)", ref="8/C28"),
    "C30": dict(engine="histsim", category="exploration",
        text="Seeded histories of construct(lazy subset)/run/reuse operations (reuse: one task object per definition given other inputs by assignment, attrs.evolve or copy, then constructed or run) over generated workflow definitions and value sets in one process vs the same single operation in a pristine process; oracle: equal graph descriptions and outputs. No fault space: history search over process-global construction caches.",
        note=HIST_NOTE, technique="deterministic simulation: seeded operation histories vs pristine-process reference", ref="8/C30"),
    "C35": dict(engine="histsim", category="fault_enumeration",
        text="For each scenario (fresh, failing, cache hit, rerun, workflow; with/without PROV auditing) every fallible seam call of the job path recorded by a dry run (hooks, messenger sends, mkdir/rmtree/chdir/unlink/lock creation/every write) gets an exception injected, exhaustively; afterwards cwd restored, no info file or job lock left, job record and result loadable with a matching errored flag, task hooks once per execution; plus seeded fault-free histories with counting hooks.",
        note="One relaxation: the target of the faulted operation itself may be missing. Sequential debug worker; faults are not injected into filelock's own lock removal.",
        technique="deterministic simulation: exhaustive exception injection at recorded seam calls + seeded histories", ref="8/C35"),
    "C36": dict(engine="simloop", category="exploration",
        text="Submissions with AuditFlag.PROV/ALL through the FileMessenger of plain tasks and generated workflows (nested, splits, seeded failing subsets) under the debug worker and the simulated pool; oracle over the recorded message history: one start and one end record per executed job with the same id, ids distinct, errored flags equal those of the stored results.",
        note=SIMLOOP_NOTE + " ResourceMonitor thread replaced by a deterministic one-sample fake when RESOURCE auditing is on.",
        technique="deterministic simulation: recorded message history checked against executed jobs under seeded schedules and failures", ref="8/C36"),
})

NA = {
    "C01": "pure function of (splitter expression, input lists): no schedule, clock, fault or history can change which jobs exist; deciding it is input enumeration against a reference semantics, not simulation",
    "C02": "pure function of (splitter, combiner, lists); same reason as C01",
    "C03": "deterministic function of (graph, inputs); needs a reference interpreter of the state algebra, not a schedule/fault search (schedule-independence itself is C17)",
    "C04": "pure function of (nested list, container_ndim)",
    "C05": "pure function of the request; 'before any job runs' is program order in one thread, not a schedule",
    "C08": "function of the value; its one environment-dependent aspect (id()-keyed memo hit by a recycled address) depends on the allocator, which a Python-level simulator cannot own; cross-session determinism is decided under C07",
    "C19": "whether a mutation is detected is a deterministic function of (task, value kind, copy mode); no schedule, clock or fault in it",
    "C20": "pure function of (declared type, value)",
    "C21": "pure function of (source type, target type)",
    "C22": "pure function of (definition, values); the executed process is only an observer",
    "C23": "pure function of (definition, values)",
    "C24": "pure function of (definition, values)",
    "C25": "pure function of (template, values)",
    "C26": "pure function of (template, values, output dir)",
    "C27": "pure function of (task, paths, environment); the container runtime is only an observer",
    "C31": "pure function of (definition, values)",
    "C32": "pure function of (definition)",
    "C33": "deterministic function of (values, modes); the file I/O has no schedule or fault in the property as stated",
    "C34": "deterministic function of (values, copy modes, file-system layout); no schedule or fault in the property as stated",
    "C37": "in-memory data structure driven by a single caller: no schedule, clock, I/O or fault",
    "C38": "pure function of (mount table, path)",
    "C39": "pure function of (caller environment, lmod output); a fake lmod would be a test double for input generation, not a simulated peer with timing or faults",
}


def main():
    claimed = sorted(CHECKS)
    checks = []
    for pid in claimed:
        c = CHECKS[pid]
        checks.append(
            {
                "property_id": pid,
                "quick_cmd": f"{PY} {pid} --tier quick",
                "thorough_cmd": f"{PY} {pid} --tier thorough",
                "evidence_file": f"/verif/evidence/{pid}.json",
                "replay_cmd_template": f"{PY} {pid} --replay {{path}}",
                "engine": c["engine"],
                "level_claimed": {"category": c["category"], "text": c["text"], "design_ref": f"DESIGN.md section {c['ref']}"},
                "level_note": c["note"],
                "technique": c["technique"],
            }
        )
    planned = "C06 C07 C09 C10 C11 C12 C13 C14 C15 C16 C17 C18 C28 C29 C30 C35 C36".split()
    na = dict(NA)
    for pid in planned:
        if pid not in CHECKS:
            na[pid] = "simulation target per DESIGN.md section 8, but its check is not built yet: not claimed until it is"
    man = {
        "version": 1,
        "setup_cmd": "/venv/bin/python /verif/tools/setup_check.py",
        "hooks": {
            "guard": "NIPYPE_PYDRA_VERIF",
            "enable": "no in-repo hooks: the harness sets NIPYPE_PYDRA_VERIF=1 itself and monkeypatches seams from outside (PYTHONPATH=/repo so the working tree is what runs)",
            "baseline_off_cmd": "cd /repo && /venv/bin/python -m pytest -ra -q -p no:cacheprovider --timeout=900 --continue-on-collection-errors",
            "source_commits": [],
            "add_only": True,
        },
        "engines": [
            {"name": "lockstep", "path": "/verif/simlib/lockstep.py", "serves_properties": [p for p in claimed if CHECKS[p]["engine"].startswith("lockstep")], "kind_free_text": "real forked processes single-stepped by a seeded controller (sys.settrace line points, simulated sleep/clock, chunked writes, SIGKILL crashes)"},
            {"name": "sessim", "path": "/verif/simlib/session.py", "serves_properties": [p for p in claimed if CHECKS[p]["engine"].startswith("sessim")], "kind_free_text": "fresh interpreter sessions (chosen PYTHONHASHSEED) executing generated programs; sessions share only durable state (cache roots, pickled jobs, result files)"},
            {"name": "histsim", "path": "/verif/checks/histcommon.py", "serves_properties": [p for p in claimed if CHECKS[p]["engine"].startswith("histsim")], "kind_free_text": "seeded operation histories through pydra's public API checked against small executable reference models; simulated clock / FS clock / exception seams where the property needs them"},
            {"name": "cluster", "path": "/verif/simlib/cluster.py", "serves_properties": [p for p in claimed if "cluster" in CHECKS[p]["engine"]], "kind_free_text": "fake SLURM/SGE command-line tools and scheduler behind asyncio.create_subprocess_exec, payloads run in lockstep actors"},
            {"name": "simloop", "path": "/verif/simlib/simloop.py", "serves_properties": [p for p in claimed if CHECKS[p]["engine"].startswith("simloop")], "kind_free_text": "virtual-time asyncio.BaseEventLoop subclass running the real Submitter; ProcessPoolExecutor replaced by a pool of lockstep actors; controller traced at line granularity"},
        ],
        "checks": checks,
        "notes": "Technique family: deterministic simulation with fault injection. One Chooser (seeded PRNG or replay list) decides every schedule, delay, fault and generated operation. See DESIGN.md.",
        "not_applicable": [{"property_id": k, "reason": v} for k, v in sorted(na.items())],
    }
    with open(os.path.join(V, "MANIFEST.json"), "w") as f:
        json.dump(man, f, indent=1)
    print("claimed", claimed, "n/a", len(na))


if __name__ == "__main__":
    main()

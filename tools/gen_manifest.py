#!/venv/bin/python
"""Regenerates /verif/MANIFEST.json from the table below (kept next to the checks)."""
import json, os

V = os.path.dirname(os.path.dirname(os.path.abspath(__file__)))
PY = "/venv/bin/python /verif/vcheck.py"

CHECKS = {
    "C10": dict(
        engine="lockstep",
        category="exploration",
        text="Seeded search over interleavings of 2-4 real submitter processes (single-stepped at Python-line, sleep, write-chunk and body points, simulated clock, stall faults) contending for one job through pydra's real lock/check/run/save protocol; oracle: body executed exactly once, every submitter gets the expected outputs, all terminate. Sampling, not enumeration.",
        note="Trusts filelock's O_EXCL protocol as a dependency (but runs it for real); pre-emption granularity is a Python line of job.py/result.py (and filelock in fine runs); one host, tmpfs.",
        technique="deterministic simulation: lockstep-scheduled real processes, seeded schedule search, stall faults",
        ref="8/C10",
    ),
}

NA = {
    "C01": "pure function of (splitter expression, input lists): no schedule, clock, fault or history can change which jobs exist; deciding it is input enumeration against a reference semantics, not simulation",
    "C02": "pure function of (splitter, combiner, lists); same reason as C01",
    "C03": "deterministic function of (graph, inputs); needs a reference interpreter of the state algebra, not a schedule/fault search (schedule-independence itself is C17)",
    "C04": "pure function of (nested list, container_ndim)",
    "C05": "pure function of the request; 'before any job runs' is program order in one thread, not a schedule",
    "C08": "function of the value; its one environment-dependent aspect (id()-keyed memo hit by a recycled address) depends on the allocator, which a Python-level simulator cannot own; cross-session determinism is decided under C07",
    "C19": "whether a mutation is detected is a deterministic function of (task, value kind, copy mode); no schedule, clock or fault in it",
    "C20": "pure function of (declared type, value)",
    "C21": "pure function of (source type, target type)",
    "C22": "pure function of (definition, values); the executed process is only an observer",
    "C23": "pure function of (definition, values)",
    "C24": "pure function of (definition, values)",
    "C25": "pure function of (template, values)",
    "C26": "pure function of (template, values, output dir)",
    "C27": "pure function of (task, paths, environment); the container runtime is only an observer",
    "C31": "pure function of (definition, values)",
    "C32": "pure function of (definition)",
    "C33": "deterministic function of (values, modes); the file I/O has no schedule or fault in the property as stated",
    "C34": "deterministic function of (values, copy modes, file-system layout); no schedule or fault in the property as stated",
    "C37": "in-memory data structure driven by a single caller: no schedule, clock, I/O or fault",
    "C38": "pure function of (mount table, path)",
    "C39": "pure function of (caller environment, lmod output); a fake lmod would be a test double for input generation, not a simulated peer with timing or faults",
}


def main():
    claimed = sorted(CHECKS)
    checks = []
    for pid in claimed:
        c = CHECKS[pid]
        checks.append(
            {
                "property_id": pid,
                "quick_cmd": f"{PY} {pid} --tier quick",
                "thorough_cmd": f"{PY} {pid} --tier thorough",
                "evidence_file": f"/verif/evidence/{pid}.json",
                "replay_cmd_template": f"{PY} {pid} --replay {{path}}",
                "engine": c["engine"],
                "level_claimed": {"category": c["category"], "text": c["text"], "design_ref": f"DESIGN.md section {c['ref']}"},
                "level_note": c["note"],
                "technique": c["technique"],
            }
        )
    planned = "C06 C07 C09 C10 C11 C12 C13 C14 C15 C16 C17 C18 C28 C29 C30 C35 C36".split()
    na = dict(NA)
    for pid in planned:
        if pid not in CHECKS:
            na[pid] = "simulation target per DESIGN.md section 8, but its check is not built yet: not claimed until it is"
    man = {
        "version": 1,
        "setup_cmd": "/venv/bin/python /verif/tools/setup_check.py",
        "hooks": {
            "guard": "NIPYPE_PYDRA_VERIF",
            "enable": "no in-repo hooks: the harness sets NIPYPE_PYDRA_VERIF=1 itself and monkeypatches seams from outside (PYTHONPATH=/repo so the working tree is what runs)",
            "baseline_off_cmd": "cd /repo && /venv/bin/python -m pytest -ra -q -p no:cacheprovider --timeout=900 --continue-on-collection-errors",
            "source_commits": [],
            "add_only": True,
        },
        "engines": [
            {"name": "lockstep", "path": "/verif/simlib/lockstep.py", "serves_properties": [p for p in claimed if CHECKS[p]["engine"].startswith("lockstep")], "kind_free_text": "real forked processes single-stepped by a seeded controller (sys.settrace line points, simulated sleep/clock, chunked writes, SIGKILL crashes)"},
        ],
        "checks": checks,
        "notes": "Technique family: deterministic simulation with fault injection. One Chooser (seeded PRNG or replay list) decides every schedule, delay, fault and generated operation. See DESIGN.md.",
        "not_applicable": [{"property_id": k, "reason": v} for k, v in sorted(na.items())],
    }
    with open(os.path.join(V, "MANIFEST.json"), "w") as f:
        json.dump(man, f, indent=1)
    print("claimed", claimed, "n/a", len(na))


if __name__ == "__main__":
    main()

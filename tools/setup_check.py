#!/venv/bin/python
"""setup_cmd: nothing to build (pure Python); verifies the offline prerequisites."""
import os, subprocess, sys

os.makedirs("/dev/shm/pv", exist_ok=True)
env = dict(os.environ, PYTHONPATH="/repo:/verif")
out = subprocess.run([sys.executable, "-c", "import pydra, filelock, cloudpickle, numpy; import pydra.engine.job as j; print(j.__file__)"], env=env, capture_output=True, text=True)
print(out.stdout.strip(), out.stderr.strip()[-500:])
sys.exit(0 if out.stdout.strip().startswith("/repo/") else 1)

#!/venv/bin/python
"""Builds the sensitivity table (DESIGN.md section 11) from seeded/results.jsonl (last result per key wins)."""
import json, os

V = "/verif"
rows = {}
for ln in open(f"{V}/seeded/results.jsonl"):
    try:
        d = json.loads(ln)
    except Exception:
        continue
    key = (d.get("kind"), d.get("id") or d.get("commit"), d.get("property"))
    rows[key] = d
notes = json.load(open(f"{V}/seeded/reverts/notes.json"))
out = []
out.append("| change | kind | property / check | caught | violated clauses (cases of the quick tier) |")
out.append("|---|---|---|---|---|")
for (kind, ident, prop), d in sorted(rows.items(), key=lambda kv: (kv[0][0], kv[0][2] or "", kv[0][1] or "")):
    if kind == "seeded":
        try:
            sup = json.load(open(f"{V}/seeded/{ident}/meta.json")).get("superseded")
        except Exception:
            sup = None
    else:
        sup = notes.get(ident)
    if sup and ("error" in d or not d.get("caught")):
        res, groups = "see note", sup
    elif "error" in d:
        res, groups = "n/a", d["error"][:60]
    else:
        res = "yes" if d.get("caught") else "NO"
        groups = (d.get("groups") or [""])[0].replace("violation groups (clause/sig: cases): ", "")[:170]
    what = ""
    if kind == "seeded":
        try:
            what = json.load(open(f"{V}/seeded/{ident}/meta.json"))["needs_to_manifest"][:110]
        except Exception:
            pass
    else:
        what = d.get("what", "")[:110]
    label = "sub-agent" if kind == "seeded" else "reverted fix"
    if kind == "seeded":
        try:
            if json.load(open(f"{V}/seeded/{ident}/meta.json"))["property"] != prop:
                label = "sub-agent (other property's check, run for information)"
                if res == "NO":
                    res = "no (property not broken by this change)"
        except Exception:
            pass
    out.append(f"| `{ident}` - {what} | {label} | {prop} | {res} | {groups} |")
print("\n".join(out))

#!/venv/bin/python
"""Single entry point: vcheck.py <PROP|selftest|sensitivity> [--tier quick|thorough] [--replay FILE]"""
import importlib
import os
import sys

sys.path.insert(0, os.path.dirname(os.path.abspath(__file__)))
from simlib import driver  # noqa: E402


def main():
    if len(sys.argv) < 2:
        print(__doc__)
        return 2
    driver.ensure_env()
    name = sys.argv[1]
    if name == "selftest":
        from simlib import selftest

        return selftest.main(sys.argv[2:])
    mod = importlib.import_module(f"checks.{name.lower()}")
    return driver.main(mod, sys.argv[2:])


if __name__ == "__main__":
    sys.exit(main())

"""C13 — failures are reported and never cached as success (histories vs. a store model)."""

from __future__ import annotations

import json
import os
import stat

from checks import histcommon as hc
from pydra.compose import shell
from simlib import lockstep, workload, workload2
from simlib.driver import blank_result, violation

PROP = "C13"
LEVEL = "exploration"
ENGINE = "histsim"
RULE = (
    "case = Chooser-generated history of 3-7 submissions into one cache root over a pool of identities: python task "
    "that raises (always / on its first attempt only), shell command exiting non-zero or killed by a signal (always / first attempt only), "
    "python task returning a dict that lacks a declared output, workflow with a failing middle node, workflow with two independent nodes failing on their first attempt (submitted with max_concurrent unlimited/1/2), and succeeding "
    "variants; worker per submission: sequential debug worker or simulated process pool (seeded schedule).  Reference "
    "model: store of identities with a complete successful result + value model + per-attempt failure plan.  "
    "Non-trivial = some identity was submitted again after it had failed; distinct = distinct history digest."
)
COMPONENTS = {
    "real": ["Task.__call__", "Submitter", "Job.run except/finally path", "record_error", "load_result", "PythonTask._run return binding", "ShellTask execution (real /bin/sh subprocess)", "WorkflowOutputs._from_job", "DebugWorker", "ConcurrentFuturesWorker on SimPool"],
    "stub": ["process pool + event loop -> simloop (for 'cf' submissions)", "failure injection -> per-run fault plan read by the workload bodies / exit codes of a counting shell script"],
}
ASSUMPTIONS = [
    "a python function returning None for declared outputs is 'provides None' (pinned by the suite's test_result_none_2), not a violation",
    "the failure text that must be recorded is the exception message of the body / the failing command line",
]
PROBES = ["limited_concurrency", "shell_signal", "resubmitted_after_failure", "transient_then_success", "shell_nonzero", "partial_dict", "workflow_failure", "cf_submission"]
N = {"quick": 300, "thorough": 6000}


def plan(tier, seed):
    return [{"id": f"h{i}", "i": i} for i in range(N.get(tier, 300))]


_script = """#!/bin/sh
# usage: cnt.sh <attempts-dir> <tag> <mode>   mode: ok | fail | once
n=$(ls "$1" | grep -c "^$2\\.")
n=$((n+1))
: > "$1/$2.$n"
case "$3" in
  ok) echo "out-$2"; exit 0;;
  fail) echo "boom-$2" >&2; exit 3;;
  once) if [ "$n" = 1 ]; then echo "boom-$2" >&2; exit 4; fi; echo "out-$2"; exit 0;;
  sig) echo "partial-$2"; kill -9 $$; sleep 5;;
  sigonce) if [ "$n" = 1 ]; then echo "partial-$2"; kill -15 $$; sleep 5; fi; echo "out-$2"; exit 0;;
esac
"""


def run_case(case, ch, workdir):
    res = blank_result()
    cache = os.path.join(workdir, "cache")
    os.makedirs(cache)
    attempts = os.path.join(workdir, "attempts")
    os.makedirs(attempts)
    shcount = os.path.join(workdir, "shcount")
    os.makedirs(shcount)
    script = os.path.join(workdir, "cnt.sh")
    with open(script, "w") as f:
        f.write(_script)
    os.chmod(script, 0o755)
    Cnt = shell.define(f"{script} <adir:str> <tag:str> <mode:str>")
    plan_path = os.path.join(workdir, "plan.json")
    # identity pool: name -> (task factory, failure mode, expected outputs when successful, failure marker)
    pool = {}
    plan = {}
    for x in (1, 2):
        pool[f"py-ok-{x}"] = (lambda x=x: workload.Planned(x=x, tag="ok"), "never", {"out": 3 * x}, None)
        pool[f"py-raise-{x}"] = (lambda x=x: workload.Planned(x=x, tag="always"), "always", None, "planned failure of Planned|")
        plan[workload._key("Planned", x, "always")] = "raise"
        pool[f"py-once-{x}"] = (lambda x=x: workload.Planned(x=x, tag="once"), "once", {"out": 3 * x}, "planned failure of Planned|")
        plan[workload._key("Planned", x, "once")] = "raise_once"
    pool["sh-ok"] = (lambda: Cnt(adir=shcount, tag="shok", mode="ok"), "never", {"stdout": "out-shok\n", "return_code": 0}, None)
    pool["sh-fail"] = (lambda: Cnt(adir=shcount, tag="shfail", mode="fail"), "always", None, "cnt.sh")
    pool["sh-once"] = (lambda: Cnt(adir=shcount, tag="shonce", mode="once"), "once", {"stdout": "out-shonce\n", "return_code": 0}, "cnt.sh")
    # the command's process is killed by a signal (negative return code in subprocess terms)
    pool["sh-sig"] = (lambda: Cnt(adir=shcount, tag="shsig", mode="sig"), "always", None, "cnt.sh")
    pool["sh-sigonce"] = (lambda: Cnt(adir=shcount, tag="shsigonce", mode="sigonce"), "once", {"stdout": "out-shsigonce\n", "return_code": 0}, "cnt.sh")
    pool["partial"] = (lambda: workload.PartialDict(x=3), "always", None, None)
    pool["partial-full"] = (lambda: workload.PartialDict(x=3, full=True), "never", {"p": 3, "q": 6}, None)
    pool["wf-fail"] = (lambda: workload.WfPlanned(x=1, tag="always"), "always", None, "Planned")
    plan[workload._key("Planned", 3, "always")] = "raise"
    pool["wf-once"] = (lambda: workload.WfPlanned(x=2, tag="once"), "once", {"out": (2 + 2) * 3 + 5}, "Planned")
    plan[workload._key("Planned", 4, "once")] = "raise_once"
    # two independent nodes that both fail on their first attempt, under a concurrency limit
    pool["wf2-once"] = (lambda: workload2.WfTwoPlanned(x=6, tag="once"), "multi", {"out": 18 * 21}, "Planned")
    plan[workload._key("Planned", 6, "once")] = "raise_once"
    plan[workload._key("Planned", 7, "once")] = "raise_once"
    pool["wf-ok"] = (lambda: workload.WfPlanned(x=5, tag="ok"), "never", {"out": (5 + 2) * 3 + 5}, None)
    with open(plan_path, "w") as f:
        json.dump(plan, f)
    env = {"VERIF_FAULTPLAN": plan_path, "VERIF_ATTEMPTS": attempts}
    names = sorted(pool)
    nops = ch.randint(3, 7, "nops")
    # bias: a few identities, so that resubmission after failure happens
    focus = [names[ch.choose(len(names), "focus")] for _ in range(ch.randint(1, 3, "nfocus"))]
    store = set()  # identities with a complete successful result
    tried = {}  # identity -> number of body executions so far (model)
    history = []
    import hashlib

    hsh = hashlib.sha256()
    steps = 0
    sim_s = 0.0
    try:
        for op in range(nops):
            name = focus[ch.choose(len(focus), "which")] if ch.choose(4, "focus?") else names[ch.choose(len(names), "any")]
            worker = "cf" if ch.chance(1, 4, "cf") else "debug"
            factory, mode, exp, marker = pool[name]
            will_exec = name not in store
            n_before = tried.get(name, 0)
            will_fail = will_exec and (mode == "always" or (mode == "once" and n_before == 0))
            task = factory()
            kw = {}
            if name.startswith("wf"):
                mc = ch.pick([None, None, 1, 2], "max_concurrent")
                if mc is not None:
                    kw["max_concurrent"] = mc
                    res["probes"]["limited_concurrency"] = 1
            status, val, events, extra = hc.submit(ch, workdir, task, cache, worker=worker, env=env, salt=f"{case['id']}-{op}", **kw)
            if mode == "multi":
                # several failing-once bodies: which of them run in one submission depends on the
                # worker (the sequential one stops at the first failure), so the model only says:
                # a failing submission executed at least one body itself (it did not just serve a
                # stored failure), nothing runs twice, nothing stored as successful runs again,
                # and a successful submission returns the value model's output
                ent = {}
                for _n, d in events:
                    if d[0] == "enter" and d[1].startswith("Planned|"):
                        ent[d[1]] = ent.get(d[1], 0) + 1
                history.append(f"{name}/{worker}/mc={kw.get('max_concurrent')}:{status}")
                hsh.update(repr((name, worker, status, sorted(ent.items()))).encode())
                ctx = f"op {op} of history {history}"
                done_nodes = tried.setdefault(name, set())
                if status == "hang":
                    violation(res, "no-termination", "wf2-once", f"{val}; {ctx}")
                    break
                if any(n > 1 for n in ent.values()):
                    violation(res, "exec-count", "wf2-once", f"a node executed twice in one submission: {ent}; {ctx}")
                if any(k in done_nodes for k in ent):
                    violation(res, "exec-count", "wf2-once", f"a node with a stored successful result was executed again: {ent}, stored {sorted(done_nodes)}; {ctx}")
                if status == "ok":
                    if name in store and ent:
                        violation(res, "exec-count", "wf2-once", f"workflow result cached but nodes executed {ent}; {ctx}")
                    for k, v in exp.items():
                        if val.get(k) != v:
                            violation(res, "wrong-output", "wf2-once", f"output {k}={val.get(k)!r}, value model says {v!r}; {ctx}")
                    store.add(name)
                else:
                    res["probes"]["workflow_failure"] = 1
                    res["faults"]["body_failure"] = res["faults"].get("body_failure", 0) + 1
                    if name in store:
                        violation(res, "spurious-failure", "wf2-once", f"workflow result is cached but the submission raised {val['type']}: {val['msg'][:200]}; {ctx}")
                    elif not ent:
                        violation(res, "not-re-executed", "wf2-once", f"the submission failed ({val['type']}: {val['msg'][:200]}) without executing any node: it served a failure stored by an earlier submission; {ctx}")
                    if done_nodes or any(h.startswith(name) for h in history[:-1]):
                        res["probes"]["resubmitted_after_failure"] = res["probes"].get("resubmitted_after_failure", 0) + 1
                # nodes whose body exited normally in this submission now have a stored result
                for _n, d in events:
                    if d[0] == "exit" and d[1].startswith("Planned|"):
                        done_nodes.add(d[1])
                continue
            steps += extra.get("steps", 0)
            sim_s += extra.get("sim_s", 0.0)
            if worker == "cf":
                res["probes"]["cf_submission"] = res["probes"].get("cf_submission", 0) + 1
            # observed executions of the identity's own body
            if name.startswith("sh-"):
                tag = name.replace("-", "")
                n_now = len([f for f in os.listdir(shcount) if f.startswith(tag + ".")])
            else:
                key = {"partial": workload._key("PartialDict", 3, False), "partial-full": workload._key("PartialDict", 3, True)}.get(name)
                if key is None:
                    t = factory()
                    if name.startswith("wf-"):
                        key = workload._key("Planned", t.x + 2, t.tag)
                    else:
                        key = workload._key("Planned", t.x, t.tag)
                n_now = len([f for f in os.listdir(attempts) if f.startswith(hashlib.sha1(key.encode()).hexdigest()[:16] + ".")])
            executed = n_now - n_before
            tried[name] = n_now
            history.append(f"{name}/{worker}:{status}")
            hsh.update(repr((name, worker, status, executed)).encode())
            sig = name.rsplit("-", 1)[0] if name[-1].isdigit() else name
            ctx = f"op {op} of history {history}"
            if status == "hang":
                violation(res, "no-termination", sig, f"{val}; {ctx}")
                break
            if will_exec and executed != 1:
                violation(res, "not-re-executed" if n_before else "exec-count", sig, f"{name}: body executed {executed} times by this submission, model expects 1 (not in store; executed {n_before} times before); {ctx}")
            if not will_exec and executed != 0:
                violation(res, "exec-count", sig, f"{name}: body executed {executed} times although a successful result is cached; {ctx}")
            if n_before and will_exec:
                res["probes"]["resubmitted_after_failure"] = res["probes"].get("resubmitted_after_failure", 0) + 1
            if will_fail:
                if name.startswith("sh-"):
                    res["probes"]["shell_signal" if "sig" in name else "shell_nonzero"] = 1
                if name == "partial":
                    res["probes"]["partial_dict"] = 1
                if name.startswith("wf-"):
                    res["probes"]["workflow_failure"] = 1
                res["faults"]["body_failure"] = res["faults"].get("body_failure", 0) + 1
                if status == "ok":
                    violation(res, "failure-returned-as-success", sig, f"{name}: body failed but the submission returned {val}; {ctx}")
                    if not any(v == "NOTHING" for v in val.values()):
                        store.add(name)
                else:
                    text = val["msg"] + "\n" + "\n".join(val["notes"])
                    # the recorded error file
                    errtxt = ""
                    for d in os.listdir(cache):
                        ep = os.path.join(cache, d, "_error.pklz")
                        if os.path.isfile(ep):
                            try:
                                import cloudpickle as cp

                                with open(ep, "rb") as fh:
                                    errtxt += str(cp.load(fh).get("error message"))
                            except Exception:
                                pass
                    if marker and marker not in text and marker not in errtxt:
                        violation(res, "failure-not-recorded", sig, f"{name}: raised error does not carry the recorded failure ({marker!r}): {text[:400]}; {ctx}")
            else:
                if status != "ok":
                    violation(res, "spurious-failure", sig, f"{name}: model expects success ({'cached' if not will_exec else 'executes and succeeds'}) but the submission raised {val['type']}: {val['msg'][:300]}; {ctx}")
                else:
                    if any(v == "NOTHING" for v in val.values()):
                        violation(res, "nothing-output", sig, f"{name}: outputs contain NOTHING: {val}; {ctx}")
                    for k, v in exp.items():
                        if val.get(k) != v:
                            violation(res, "wrong-output", sig, f"{name}: output {k}={val.get(k)!r}, value model says {v!r}; {ctx}")
                    store.add(name)
                    if mode == "once" and n_before >= 1 and executed == 1:
                        res["probes"]["transient_then_success"] = 1
    finally:
        lockstep.reset_state()
    res["digest"] = hsh.hexdigest()[:20]
    res["sample"] = {"history": history}
    res["nontrivial"] = bool(res["probes"].get("resubmitted_after_failure"))
    res["steps"] = steps
    res["sim_s"] = sim_s
    return res

"""C11 — at-most-once execution per identity; rerun and read-only caches as documented."""

from __future__ import annotations

import hashlib
import os

from checks import histcommon as hc
from simlib import lockstep, workload, workload2
from simlib.chooser import Chooser, mix_seed
from simlib.driver import blank_result, violation

PROP = "C11"
LEVEL = "exploration"
ENGINE = "histsim"
RULE = (
    "case = Chooser-generated history of 3-8 operations over cache locations R1,R2 (roots) and R1,R2,R3 (read-only "
    "lists in random order): submit(task|workflow, rerun?, propagate_rerun?, root, readonly list, debug|simulated-pool "
    "worker) over a pool of 4 plain tasks, 2 workflows sharing inner identities with them a workflow that nests one of those workflows and a workflow with two independent nodes (workflow submissions with max_concurrent unlimited/1/2), and leave_residue(identity, "
    "location): a real process executing that job is SIGKILLed at a Chooser-picked point, leaving an incomplete "
    "directory / stale lock / torn result (in half of the cases the lock and info files are then removed, as in a copied cache).  Reference model: per location the set of identities with a complete "
    "successful result.  Non-trivial = the history contains a cache hit, a rerun or a residue; distinct = distinct "
    "history digest."
)
COMPONENTS = {
    "real": ["Task.__call__/Submitter", "Job.run", "Job.all_caches", "load_result (location precedence)", "_populate_filesystem (rmtree+mkdir)", "Submitter.propagate_rerun", "expand_workflow (debug) / expand_workflow_async (cf on SimPool)", "SIGKILLed real processes for residues", "filelock stale-marker recovery"],
    "stub": ["process pool + event loop -> simloop (for 'cf' submissions)", "crash timing -> Chooser-picked pre-emption point of a lockstep child"],
}
ASSUMPTIONS = [
    "identity = (task class, input values) as the model understands the computation, never pydra's checksum",
    "with propagate_rerun=False inner tasks of a rerun workflow follow the ordinary cache rule",
]
PROBES = ["limited_concurrency", "nested_workflow", "rerun_nested", "residue_without_lock", "cache_hit", "readonly_hit", "rerun", "rerun_no_propagate", "residue_in_root", "residue_in_readonly", "cf_submission", "workflow_inner_shared"]
N = {"quick": 300, "thorough": 6000}
JOBS = 6


def plan(tier, seed):
    return [{"id": f"h{i}", "i": i} for i in range(N.get(tier, 300))]


# identity pool ------------------------------------------------------------------
def _k_add(x, k):
    return workload._key("Add", x, k)


def _k_slow(x, n):
    return workload._key("Slow", x, n)


TASKS = {
    "add1": (lambda: workload.Add(x=1, k=1), [_k_add(1, 1)], {"out": 2}),
    "add2": (lambda: workload.Add(x=2, k=1), [_k_add(2, 1)], {"out": 3}),
    "slow2": (lambda: workload.Slow(x=2, npoints=2), [_k_slow(2, 2)], {"out": 5}),
    "slow3": (lambda: workload.Slow(x=3, npoints=2), [_k_slow(3, 2)], {"out": 7}),
    # Chain2(x): a=Add(x,1), b=Slow(a.out,2)
    "wf1": (lambda: workload.Chain2(x=1), [_k_add(1, 1), _k_slow(2, 2)], {"out": 5}),
    "wf2": (lambda: workload.Chain2(x=2), [_k_add(2, 1), _k_slow(3, 2)], {"out": 7}),
    # Nest2(x): inner=Chain2(x) (a nested workflow job with the identity of wf<x>), c=Add(inner.out,3)
    # Par2(x): a=Add(x,1), b=Add(x+1,1) side by side (identities of add1 and add2), c=Mul(a.out,b.out)
    "wfp1": (lambda: workload2.Par2(x=1), [_k_add(1, 1), _k_add(2, 1), workload._key("Mul", 2, 3)], {"out": 6}),
    "wfn1": (lambda: workload2.Nest2(x=1), [_k_add(1, 1), _k_slow(2, 2), _k_add(5, 3)], {"out": 8}),
}
# workflow structure for the model: own task identities and nested workflows
WFS = {
    "wf1": ([_k_add(1, 1), _k_slow(2, 2)], []),
    "wf2": ([_k_add(2, 1), _k_slow(3, 2)], []),
    "wfn1": ([_k_add(5, 3)], ["wf1"]),
    "wfp1": ([_k_add(1, 1), _k_add(2, 1), workload._key("Mul", 2, 3)], []),
}


def _victim(name, cache, readonly):
    t = TASKS[name][0]()
    out = t(cache_root=cache, worker="debug", readonly_caches=readonly or None)
    return hc.outputs_plain(out)


def run_case(case, ch, workdir):
    res = blank_result()
    locs = {n: os.path.join(workdir, n) for n in ("R1", "R2", "R3")}
    for p in locs.values():
        os.makedirs(p)
    store = {n: set() for n in locs}  # location -> identities (body keys, and "wf:<name>")
    dirty = {n: set() for n in locs}  # location -> identities with a crash residue there
    names = sorted(TASKS)
    nops = ch.randint(3, 8, "nops")
    history = []
    hsh = hashlib.sha256()
    steps = 0
    probes = res["probes"]
    seed = int(os.environ.get("VERIF_SEED", "0") or 0)

    def probe(n):
        probes[n] = probes.get(n, 0) + 1

    try:
        for op in range(nops):
            kind = "residue" if ch.chance(1, 5, "residue?") else "submit"
            name = names[ch.choose(len(names), "task")]
            factory, keys, exp = TASKS[name]
            is_wf = name.startswith("wf")
            if kind == "residue":
                # a real process runs the job in location L and is killed at a chosen point
                loc = ["R1", "R2", "R3"][ch.choose(3, "res-loc")]
                sim = lockstep.Sim(Chooser(seed=mix_seed(seed, "c11res", case["id"], op)), workdir, trace_files=lockstep.pydra_trace_files(), chunk_writes=True, uuid_salt=f"{case['id']}-{op}")
                try:
                    v = sim.spawn("victim", _victim, (name, locs[loc], []))
                    k = ch.randint(30, 260 if not is_wf else 700, "kill-at")
                    while v.state in ("ready", "sleeping") and v.npoints < k:
                        if v.state == "sleeping":
                            sim.jump_clock()
                        sim.step(v, k - v.npoints)
                    if v.state in ("ready", "sleeping"):
                        at = sim.label_text(v.pending)
                        sim.kill(v)
                        res["faults"]["kill"] = res["faults"].get("kill", 0) + 1
                        res["fault_trace"].append(f"op{op}: SIGKILL process running {name} in {loc} at point {k}: {at}")
                    # whatever completed before the kill is really in the store
                    for _n, d in sim.events:
                        pass
                finally:
                    sim.shutdown()
                unlocked = ch.chance(1, 2, "res-unlocked")
                if unlocked:
                    # the leftovers without the dead process's lock and info files, as in a
                    # cache directory that was copied or cleaned of bookkeeping files
                    for n in os.listdir(locs[loc]):
                        if n.endswith(".lock") or n.endswith("_info.json"):
                            os.unlink(os.path.join(locs[loc], n))
                    probe("residue_without_lock")
                # model: identities with a complete successful result on disk now (reference loader)
                done_now = _complete_keys(locs[loc])
                for kk in keys + [f"wf:{name}"]:
                    if kk in done_now:
                        store[loc].add(kk)
                    elif kk not in store[loc]:
                        dirty[loc].add(kk)
                history.append(f"residue({name}@{loc}:k{k})")
                hsh.update(repr(("res", name, loc, k)).encode())
                probe("residue_in_root" if loc != "R3" else "residue_in_readonly")
                continue
            root = ["R1", "R2"][ch.choose(2, "root")]
            ro = ch.shuffle([n for n in ("R1", "R2", "R3") if n != root and ch.choose(2, "ro?")], "ro-order")
            rerun = ch.chance(1, 4, "rerun")
            prop = True if not rerun else not ch.chance(1, 3, "noprop")
            worker = "cf" if ch.chance(1, 5, "cf") else "debug"
            listed = [root] + ro
            # ---- model
            wfkey = f"wf:{name}"

            def cached(k):
                return any(k in store[loc] for loc in listed)

            expect = {k: 0 for k in keys}
            written = []  # workflow results this submission writes into the root

            def expand(wname, force):
                # a workflow job: served from the cache unless forced; otherwise expanded,
                # its tasks and nested workflows getting the propagated rerun flag
                if not force and cached(f"wf:{wname}"):
                    return
                written.append(f"wf:{wname}")
                inner_force = rerun and prop
                own, subs = WFS[wname]
                for k in own:
                    expect[k] = 1 if inner_force or not cached(k) else 0
                for sub in subs:
                    expand(sub, inner_force)

            if is_wf:
                expand(name, rerun)
            else:
                expect[keys[0]] = 1 if rerun or not cached(keys[0]) else 0
            snaps = {n: hc.tree_snapshot(p) for n, p in locs.items() if n != root}
            task = factory()
            kw = {"rerun": rerun, "readonly_caches": [locs[n] for n in ro] or None}
            if rerun and not prop:
                kw["propagate_rerun"] = False
            mc = ch.pick([None, None, 1, 2], "max_concurrent") if is_wf else None
            if mc is not None:
                kw["max_concurrent"] = mc
                probe("limited_concurrency")
            status, val, events, extra = hc.submit(ch, workdir, task, locs[root], worker=worker, salt=f"{case['id']}-{op}", **kw)
            steps += extra.get("steps", 0)
            if worker == "cf":
                probe("cf_submission")
            got = hc.enters(events)
            desc = f"{name}(root={root},ro={ro},rerun={rerun},prop={prop},{worker}{',mc=%d' % mc if mc else ''})"
            history.append(desc + f":{status}")
            hsh.update(repr((desc, status, sorted(got.items()))).encode())
            sig = ("wf" if is_wf else "task") + ("+rerun" if rerun else "") + ("+ro" if ro else "")
            involved_dirty = any(k in dirty[loc] for loc in listed for k in keys + [wfkey])
            if involved_dirty:
                sig += "+residue"
            ctx = f"op {op}: {desc}; history={history}; store={ {n: sorted(s) for n, s in store.items() if s} }; residues={ {n: sorted(s) for n, s in dirty.items() if s} }"
            if status == "hang":
                violation(res, "no-termination", sig, f"{val}; {ctx}")
                break
            if status != "ok":
                if worker == "cf" and rerun and is_wf and "retrieve_from_job" in val["msg"] and "_resolve_lazy_inputs" in val["msg"]:
                    # a node of a workflow re-run on the asynchronous path was started while the
                    # job producing its input was being re-executed: the polling loop had judged
                    # that producer 'done' from the result of the EARLIER run, which the re-run
                    # then removed (own signature: a recorded finding, see known_findings.json)
                    sig = "rerun-async-stale-poll"
                violation(res, "unexpected-error", sig, f"{val['type']}: {val['msg'][:300]} ... {val['msg'][-900:]}; {ctx}")
                # the root may be in an unknown state: stop the history here
                break
            for k in keys:
                n = got.get(k, 0)
                if n != expect[k]:
                    clause = "re-executed-cached" if n > expect[k] else "not-executed"
                    if rerun and n < expect[k]:
                        clause = "rerun-not-executed"
                    violation(res, clause, sig, f"{k} executed {n} times, model expects {expect[k]}; {ctx}")
                if n:
                    store[root].add(k)
                    dirty[root].discard(k)
            if any(expect[k] == 0 for k in keys):
                probe("cache_hit")
                if any(any(k in store[loc] for loc in ro) and k not in store[root] for k in keys):
                    probe("readonly_hit")
            if rerun:
                probe("rerun" if prop else "rerun_no_propagate")
            for k, v in exp.items():
                if val.get(k) != v:
                    violation(res, "wrong-output", sig, f"output {k}={val.get(k)!r}, value model says {v!r}; {ctx}")
            if is_wf:
                # the results of the workflow jobs that were expanded are written to the root
                for wk in written:
                    store[root].add(wk)
                    dirty[root].discard(wk)
                probe("workflow_inner_shared")
                if name == "wfn1":
                    probe("nested_workflow")
                    if rerun and prop:
                        probe("rerun_nested")
            for n, before in snaps.items():
                after = hc.tree_snapshot(locs[n])
                if after != before:
                    changed = sorted(set(after.items()) ^ set(before.items()))[:4]
                    violation(res, "readonly-modified", sig, f"location {n} is not the cache root of this submission but changed: {changed}; {ctx}")
    finally:
        lockstep.reset_state()
    res["digest"] = hsh.hexdigest()[:20]
    res["sample"] = {"history": history}
    res["nontrivial"] = any(probes.get(p) for p in ("cache_hit", "rerun", "rerun_no_propagate", "residue_in_root", "residue_in_readonly"))
    res["steps"] = steps
    return res


def _complete_keys(loc):
    """identities with a complete successful result in a location (reference loader:
    plain unpickle; identity read from the stored task)"""
    import pickle

    out = set()
    for d in sorted(os.listdir(loc)):
        rp = os.path.join(loc, d, "_result.pklz")
        if not os.path.isfile(rp):
            continue
        try:
            with open(rp, "rb") as f:
                r = pickle.load(f)
            if r.errored or r.outputs is None:
                continue
            t = r.task
            nm = type(t).__name__
            if nm == "Add":
                out.add(_k_add(t.x, t.k))
            elif nm == "Slow":
                out.add(_k_slow(t.x, t.npoints))
            elif nm == "Chain2":
                out.add(f"wf:wf{t.x}")
            elif nm == "Par2":
                out.add(f"wf:wfp{t.x}")
            elif nm == "Mul":
                out.add(workload._key("Mul", t.x, t.y))
            elif nm == "Nest2":
                out.add(f"wf:wfn{t.x}")
        except Exception:
            continue
    return out

"""C18 — every submission terminates (with outputs or an error)."""

from __future__ import annotations

import os
import socket

from checks import wfcommon as wc
from simlib import rt as _rt
from simlib import simloop, wfgen, workload
from simlib.driver import blank_result, violation

PROP = "C18"
LEVEL = "exploration"
ENGINE = "simloop"
RULE = (
    "case kinds: (a) generated workflow + one back-edge closed through node-input assignment (untyped Tok fields, "
    "or typed int chain), run under the sequential loop (debug worker, pydra-call budget) and under the async loop "
    "(simulated pool); (b) acyclic generated workflow on the simulated pool with one progress-removing fault: pool "
    "worker SIGKILLed mid-job, result file deleted after the job finished, stale job lock left by a dead local PID, "
    "stale job lock naming another host; (c) acyclic workflows under the sequential loop with a max_concurrent limit.  Oracle (bounded liveness): after the last fault the submission returns or "
    "raises within 600 simulated seconds, 300k scheduler steps and 3M pydra function calls.  Non-trivial = a cycle was "
    "really built or a fault really fired; distinct = distinct (kind, workflow, step digest)."
)
COMPONENTS = {
    "real": ["DiGraph.sorting", "Node.Inputs.__setattr__", "Workflow.construct / execution_graph", "Submitter.expand_workflow + expand_workflow_async (stall detector)", "NodeExecution", "ConcurrentFuturesWorker", "Job.run + SoftFileLock", "BrokenProcessPool semantics"],
    "stub": ["event loop -> SimLoop (virtual time: the 10x1 s stall polls cost microseconds)", "ProcessPoolExecutor -> SimPool", "wall-clock hang detection -> deterministic call/step/sim-time budgets"],
}
ASSUMPTIONS = [
    "termination is judged by deterministic budgets (pydra function calls, scheduler steps, simulated seconds), never by a wall clock",
    "a real ProcessPoolExecutor marks the pool broken when a worker dies; SimPool reproduces exactly that",
]
PROBES = ["sequential_loop_with_limit", "cycle_built", "stall_branch_entered", "worker_killed", "result_lost", "stale_lock_placed", "broken_pool"]
N = {"quick": 260, "thorough": 6000}
KINDS = ["cycle-untyped/debug", "cycle-untyped/cf", "cycle-typed/debug", "cycle-typed/cf", "fault/kill-worker", "fault/lose-result", "fault/stale-lock-deadpid", "fault/stale-lock-foreign", "acyclic/cf", "acyclic/debug"]


def plan(tier, seed):
    n = N.get(tier, 260)
    return [{"id": f"c{i}", "i": i, "kind": KINDS[i % len(KINDS)]} for i in range(n)]


def _finish(res, sim, env=None):
    res["steps"] = sim.steps
    res["sim_s"] = sim.now - _rt.EPOCH
    res["faults"] = dict(sim.faults)
    res["probes"] = dict(sim.probes)
    res["digest"] = sim.digest()


def run_case(case, ch, workdir):
    res = blank_result()
    seed = int(os.environ.get("VERIF_SEED", "0") or 0)
    kind = case["kind"]
    cache = os.path.join(workdir, "cache")
    os.makedirs(cache)
    sig = kind
    if kind.startswith("cycle-typed"):
        n = ch.randint(2, 4, "n")
        dst = ch.randint(0, n - 2, "dst")
        src = ch.randint(dst + 1, n - 1, "src")
        task = workload.TypedCycle(x=1, n=n, back=[dst, src])
        desc = f"typed chain of {n} Add nodes, t{dst}.x <- t{src}.out"
        spec = None
    elif kind.startswith("cycle-untyped"):
        spec, sch = wc.spec_for(seed, 3000 + case["i"], splits=False, nested=False, dups=False)
        if not wfgen.add_back_edge(sch, spec):
            res["digest"] = "rejected"
            return res
        task = workload.GenWf(spec=spec, x=wc.X, xs=wc.XS)
        desc = wfgen.describe(spec)
    else:
        spec, sch = wc.spec_for(seed, 3000 + case["i"], nested=False)
        task = workload.GenWf(spec=spec, x=wc.X, xs=wc.XS)
        desc = wfgen.describe(spec)
    res["sample"] = {"kind": kind, "workflow": desc}

    if kind.endswith("/debug"):
        import hashlib

        mc = ch.pick([None, 1, 1, 2, 3], "max_concurrent") if kind == "acyclic/debug" else None
        kw = {} if mc is None else {"max_concurrent": mc}
        res["sample"]["max_concurrent"] = mc

        def go():
            out = task(cache_root=cache, worker="debug", **kw)
            return wc.plain(out.out)

        status, val = simloop.run_budgeted(go, max_calls=600_000)
        res["digest"] = hashlib.sha256(repr((kind, desc, status, mc)).encode()).hexdigest()[:20]
        res["nontrivial"] = True
        res["probes"] = {"cycle_built": 1} if kind.startswith("cycle") else {"sequential_loop_with_limit": 1 if mc else 0}
        res["sample"]["status"] = status
        if status == "hang":
            violation(res, "no-termination", sig, f"sequential loop did not terminate: {val} (workflow: {desc}, max_concurrent={mc})")
        elif status == "ok" and kind.startswith("cycle"):
            violation(res, "cycle-accepted", sig, f"cyclic workflow returned outputs {str(val)[:200]} (workflow: {desc})")
        return res

    # async loop on the simulated pool
    fault = kind.split("/", 1)[1] if kind.startswith("fault/") else None
    ref_dirs = []
    if fault:
        rstat, rval, revents = wc.reference_run(spec, os.path.join(workdir, "refcache"))
        if rstat != "ok":
            res["digest"] = "rejected"
            return res
        ref_dirs = sorted(d for d in os.listdir(os.path.join(workdir, "refcache")) if d.startswith(("python-", "workflow-")) and os.path.isdir(os.path.join(workdir, "refcache", d)))
        if not ref_dirs:
            res["digest"] = "rejected"
            return res
    prof = wc.gen_profile(ch)
    prof["t_limit"] = 600.0
    prof["ext_budget"] = 300_000
    fired = [False]
    hook = None
    if fault == "kill-worker":
        kill_after = ch.randint(1, 40, "kill-after")
        cnt = [0]

        def hook(env, p):  # noqa: F811
            cnt[0] += 1
            if not fired[0] and cnt[0] >= kill_after and p.npoints > 3:
                fired[0] = True
                env.sim.probe("worker_killed")
                env.kill_worker(p)
                return "skip"
            return None

    elif fault == "lose-result":
        def hook(env, p):  # noqa: F811
            # delete the result of a finished job that has not been delivered yet
            if not fired[0] and env.pool.completions:
                for d in os.listdir(cache):
                    rp = os.path.join(cache, d, "_result.pklz")
                    if d.startswith("python-") and os.path.isfile(rp) and not os.path.exists(os.path.join(cache, d + ".lock")):
                        os.unlink(rp)
                        fired[0] = True
                        env.sim.fault("result_lost")
                        env.sim.probe("result_lost")
                        env.sim.note("lose-result")
                        break
            return None

    elif fault in ("stale-lock-deadpid", "stale-lock-foreign"):
        target = ref_dirs[ch.choose(len(ref_dirs), "lock-which")]
        host = socket.gethostname() if fault == "stale-lock-deadpid" else "othernode"
        # a PID that is provably dead: fork + exit + reap would cost a process; use a
        # reaped actor-less trick: pid 2**22-1 is above pid_max on this kernel
        deadpid = 4194303
        with open(os.path.join(cache, target + ".lock"), "w") as f:
            f.write(f"{deadpid}\n{host}\n")
        os.utime(os.path.join(cache, target + ".lock"), (_rt.EPOCH - 100, _rt.EPOCH - 100))
        fired[0] = True
    prof["max_calls"] = 1_000_000
    env, status, val = wc.sim_run(ch, workdir, spec, prof, cache=cache, salt=case["id"], fault_hook=hook, task=task)
    try:
        sim = env.sim
        if fault in ("stale-lock-deadpid", "stale-lock-foreign"):
            sim.fault(fault)
            sim.probe("stale_lock_placed")
        if env.pool.broken:
            sim.probe("broken_pool")
        if kind.startswith("cycle"):
            sim.probe("cycle_built")
        _finish(res, sim)
        res["sample"].update({"status": status, "fault_fired": fired[0]})
        res["nontrivial"] = fired[0] or kind.startswith("cycle") or kind == "acyclic/cf"
        if fired[0]:
            res["fault_trace"].append(f"{fault}")
        if status == "hang":
            violation(res, "no-termination", sig, f"async loop did not terminate: {val} (workflow: {desc})")
        elif status == "ok" and kind.startswith("cycle"):
            violation(res, "cycle-accepted", sig, f"cyclic workflow returned outputs {str(val)[:200]} (workflow: {desc})")
    finally:
        env.close()
    return res

"""C12 — a crash at any point never yields a wrong result or a wedged cache.

fault_enumeration: for every scenario the ordered list of pre-emption points of the job
execution path is recorded by a dry run; then, for every index k, the run is repeated
and the executing process is SIGKILLed when it is parked at point k.  A fresh submission
of the same task follows under the simulated clock.  Additionally every truncation
length of a completed `_result.pklz` is tried.
"""

from __future__ import annotations

import json
import os
import pickle

from simlib import lockstep, workload
from simlib.chooser import Chooser, mix_seed
from simlib.driver import blank_result, violation

PROP = "C12"
LEVEL = "fault_enumeration"
ENGINE = "lockstep"
CASE_WALL = 240
JOBS = 2  # every case forks a replacement for the killed process; forks do not scale in this sandbox
FRESH_SELFTEST = True
RULE = (
    "cases = for each scenario (plain, slow body, over-an-errored-result, rerun-over-existing, two-node "
    "workflow, failing task, foreign-host marker) every pre-emption point index k of the executing process "
    "(Python lines of job.py/result.py [+filelock in fine mode], simulated sleeps, every chunk of every file "
    "write, body points) -> SIGKILL at k, then resubmission; plus truncation of _result.pklz to every "
    "(quick: strided) length; for the workflow scenario additionally resubmission through the asynchronous path (cf worker on the simulated pool).  Non-trivial = the victim had acquired the job lock (a lock/info/dir residue "
    "exists) or a result file was truncated; distinct = distinct (scenario, point label, residue shape)."
)
COMPONENTS = {
    "real": ["Task.__call__", "Submitter", "DebugWorker", "Job.run", "_populate_filesystem", "save/record_error/load_result", "Submitter._check_locks", "filelock.SoftFileLock stale-marker recovery against really dead PIDs", "SIGKILL+waitpid", "tmpfs"],
    "stub": ["OS scheduler -> lockstep controller", "clock/sleep -> simulated", "lock-file timestamps -> simulated FS clock", "buffered writes -> chunked unbuffered writes (a kill between chunks leaves a torn file)", "socket.gethostname in the foreign-host scenario"],
}
ASSUMPTIONS = [
    "process crash (SIGKILL): page cache survives, power loss is not modelled",
    "crash points are Python-line / write-chunk / sleep / body points; a line doing several file operations (shutil.rmtree) is atomic",
    "same host unless the scenario says foreign-host",
    "resubmission budget: 120 simulated seconds and 60k scheduler steps",
]
PROBES = ["async_resubmission", "resub_after_pool_kill", "stale_lock_broken", "torn_result_retried", "resub_cache_hit", "resub_reexecuted", "kill_inside_body", "kill_mid_write"]

SCENARIOS = ["plain", "slow", "errored_existing", "rerun_existing", "wf", "failing", "foreign_host"]
X = 4


def _task(scen):
    if scen == "wf":
        return workload.Chain2(x=X)
    if scen == "failing":
        return workload.Fail(x=X)
    return workload.Slow(x=X, npoints=2)


def _expected(scen):
    if scen == "wf":
        return 2 * (X + 1) + 1
    return 2 * X + 1


def _run(scen, cache, rerun=False, foreign=False):
    import socket

    real = socket.gethostname
    if foreign:
        socket.gethostname = lambda: "othernode"
    try:
        t = _task(scen)
        out = t(cache_root=cache, worker="debug", rerun=rerun)
        return {"out": out.out}
    finally:
        socket.gethostname = real


def _sim(ch, workdir, fine, salt):
    return lockstep.Sim(
        ch,
        workdir,
        trace_files=lockstep.pydra_trace_files(fine=fine),
        chunk_writes=True,
        max_steps=400_000,
        uuid_salt=salt,
    )


def _prepare(sim, scen, cache, workdir):
    """History before the victim runs; returns env for the victim."""
    plan_path = os.path.join(workdir, "plan.json")
    key = workload._key("Slow", X, 2)
    if scen == "errored_existing":
        with open(plan_path, "w") as f:
            json.dump({key: "raise"}, f)
        p = sim.spawn("pre", _run, (scen, cache), env={"VERIF_FAULTPLAN": plan_path})
        while p.state in ("ready", "sleeping"):
            sim.step(p, 4096)
            if p.state == "sleeping":
                sim.jump_clock()
        if p.status != "exc":
            raise RuntimeError(f"setup: expected failure, got {p.status} {p.result}")
        os.unlink(plan_path)
    elif scen == "rerun_existing":
        p = sim.spawn("pre", _run, (scen, cache))
        while p.state in ("ready", "sleeping"):
            sim.step(p, 4096)
            if p.state == "sleeping":
                sim.jump_clock()
        if p.status != "ok":
            raise RuntimeError(f"setup failed: {p.result}")
    sim.events.clear()
    return {}


def _drive(sim, proc, upto=None, log=None):
    """Run proc alone (no other actor) until it has passed `upto` points or finished."""
    while proc.state in ("ready", "sleeping"):
        if proc.state == "sleeping":
            sim.jump_clock()
        if upto is not None:
            left = upto - proc.npoints
            if left <= 0:
                return
            burst = left
        else:
            burst = 1 if log is not None else 4096
        if log is not None:
            log.append(sim.label_text(proc.pending))
        sim.step(proc, burst)


def dry_points(scen, fine, seed):
    """Ordered labels of the victim's pre-emption points (fault-free dry run)."""
    workdir = os.path.join("/dev/shm/pv", f"dry{os.getpid() % 100000:05d}{mix_seed(scen, fine) & 0xFFFFF:05x}")
    import shutil

    shutil.rmtree(workdir, ignore_errors=True)
    os.makedirs(workdir)
    try:
        ch = Chooser(seed=mix_seed(seed, "C12", scen, fine))
        sim = _sim(ch, workdir, fine, f"{scen}")
        cache = os.path.join(workdir, "cache")
        os.makedirs(cache)
        try:
            _prepare(sim, scen, cache, workdir)
            v = sim.spawn("victim", _run, (scen, cache, scen == "rerun_existing", scen == "foreign_host"))
            log = []
            _drive(sim, v, log=log)
            return log
        finally:
            sim.shutdown()
    finally:
        shutil.rmtree(workdir, ignore_errors=True)


_points_cache = {}


def plan(tier, seed):
    cases = []
    fine_set = [False] if tier == "quick" else [False, True]
    for fine in fine_set:
        for scen in SCENARIOS:
            if tier == "quick" and fine:
                continue
            labels = dry_points(scen, fine, seed)
            n = len(labels)
            stride = 1
            if tier == "quick":
                stride = {"slow": 2, "wf": 5, "foreign_host": 8}.get(scen, 3)
            elif fine:
                stride = 1 if scen in ("slow", "rerun_existing") else 3
            for k in range(1, n + 1, stride):
                cases.append({"id": f"{scen}-{'f' if fine else 'c'}-k{k}", "scen": scen, "fine": fine, "k": k, "n": n, "label": labels[k - 1]})
    # truncation of a complete result file
    tl = _result_len(seed)
    if tier == "quick":
        lens = sorted(set(list(range(0, min(tl, 24))) + list(range(0, tl, 331)) + list(range(max(0, tl - 16), tl))))
    else:
        lens = list(range(tl))
    for L in lens:
        cases.append({"id": f"trunc-{L}", "scen": "truncate", "fine": False, "k": L, "n": tl, "label": f"truncate _result.pklz to {L}/{tl} bytes"})
    lockstep.POOL.close()
    # sampled: a pool worker of an asynchronous workflow submission is SIGKILLed at a seeded
    # moment; the same workflow is then submitted again into the same cache root
    for i in range({"quick": 40}.get(tier, 600)):
        cases.append({"id": f"pool-{i}", "scen": "pool", "fine": False, "k": i, "n": 0, "label": "SIGKILL of a pool worker at a seeded step"})
    # the same crash points of the workflow scenario, but the resubmission goes through the
    # asynchronous path (cf worker on the simulated pool: Job.run_async, PydraFileLock)
    wf_pts = [c for c in cases if c["scen"] == "wf" and not c["fine"]]
    for c in wf_pts[:: 1 if tier == "thorough" else 4]:
        cases.append({"id": c["id"] + "-async", "scen": "wf", "fine": False, "k": c["k"], "n": c["n"], "label": c["label"], "async_resub": True})
    if tier == "thorough":
        # second crash during recovery (sampled), resubmission racing a second submitter
        base = [c for c in cases if c["scen"] in ("slow", "wf", "rerun_existing") and not c["fine"] and not c.get("async_resub")]
        for i, c in enumerate(base):
            for j in range(3):
                cases.append({"id": c["id"] + f"-double{j}", "scen": c["scen"], "fine": False, "k": c["k"], "n": c["n"], "label": c["label"], "double": j + 1})
            cases.append({"id": c["id"] + "-race", "scen": c["scen"], "fine": False, "k": c["k"], "n": c["n"], "label": c["label"], "race": True})
    return cases


def _result_len(seed):
    """size of a complete _result.pklz written under the same conditions as a case"""
    workdir = os.path.join("/dev/shm/pv", f"trl{os.getpid() % 100000:05d}00000")
    import shutil

    shutil.rmtree(workdir, ignore_errors=True)
    os.makedirs(workdir + "/cache")
    sim = _sim(Chooser(seed=mix_seed(seed, "C12", "slow", False)), workdir, False, "slow")
    try:
        p = sim.spawn("victim", _run, ("slow", workdir + "/cache"))
        _drive(sim, p)
        (d,) = [d for d in os.listdir(workdir + "/cache") if os.path.isdir(os.path.join(workdir, "cache", d))]
        return os.path.getsize(os.path.join(workdir, "cache", d, "_result.pklz"))
    finally:
        sim.shutdown()
        shutil.rmtree(workdir, ignore_errors=True)


def _complete_results(cache):
    """checksum dir -> True iff a complete *successful* result is on disk (reference
    loader: plain unpickle of the whole file)."""
    out = {}
    for d in sorted(os.listdir(cache)):
        p = os.path.join(cache, d, "_result.pklz")
        if os.path.isfile(p):
            try:
                with open(p, "rb") as f:
                    r = pickle.load(f)
                out[d] = (not r.errored) and r.outputs is not None
            except Exception:
                out[d] = False
    return out


def _residue(cache):
    names = sorted(os.listdir(cache))
    shape = []
    for n in names:
        if n.endswith(".lock"):
            shape.append("lock" if not n.endswith("_save.lock") else "savelock")
        elif n.endswith("_info.json"):
            shape.append("info")
        elif os.path.isdir(os.path.join(cache, n)):
            inner = sorted(os.listdir(os.path.join(cache, n)))
            shape.append("dir[" + ",".join(f"{i}:{os.path.getsize(os.path.join(cache, n, i)) > 0}" for i in inner if i.startswith("_")) + "]")
    return shape


def _run_pool_case(case, ch, workdir, res):
    from checks import wfcommon as wc
    from simlib import wfgen

    seed = int(os.environ.get("VERIF_SEED", "0") or 0)
    spec, _ = wc.spec_for(seed, 9000 + case["k"], nested=False)
    desc = wfgen.describe(spec)
    rstat, rval, revents = wc.reference_run(spec, os.path.join(workdir, "refcache"))
    res["sample"] = {"scenario": "pool", "workflow": desc, "reference": rstat}
    if rstat != "ok":
        res["digest"] = "rejected"
        return res
    cache = os.path.join(workdir, "cache")
    prof = wc.gen_profile(ch)
    kill_after = ch.randint(1, 60, "kill-after")
    cnt = [0]
    fired = []

    def hook(env, p):
        cnt[0] += 1
        if not fired and cnt[0] >= kill_after and p.npoints > 3:
            fired.append(env.sim.label_text(p.pending))
            env.kill_worker(p)
            return "skip"
        return None

    env, status, val = wc.sim_run(ch, workdir, spec, prof, cache=cache, salt=case["id"] + "a", fault_hook=hook)
    env.close()
    d1 = env.sim.digest()
    res["faults"] = dict(env.sim.faults)
    steps = env.sim.steps
    if not fired:
        res["digest"] = "nofault" + d1
        return res
    res["fault_trace"].append(f"SIGKILL pool worker at {fired[0]}; first submission -> {status}")
    if status == "hang":
        violation(res, "wedged", "pool", f"first submission did not terminate after the worker was killed: {val}; workflow {desc}")
        return res
    complete = _complete_results(cache)
    prof2 = dict(prof)
    env2, status2, val2 = wc.sim_run(ch, workdir, spec, prof2, cache=cache, salt=case["id"] + "b")
    try:
        enters, order, _p = wc.exec_summary(env2.sim.events)
        res["steps"] = steps + env2.sim.steps
        res["sim_s"] = env2.sim.now - 1_700_000_000.0
        res["digest"] = d1[:10] + env2.sim.digest()[:10]
        res["nontrivial"] = True
        res["probes"] = dict(env2.sim.probes)
        res["probes"]["resub_after_pool_kill"] = 1
        res["sample"].update({"first": status, "resubmission": status2, "killed_at": fired[0], "complete_results_after_crash": sum(1 for v in complete.values() if v)})
        ctx = f"workflow {desc}; pool worker killed at [{fired[0]}], first submission -> {status}; complete results on disk then: {sum(1 for v in complete.values() if v)}"
        if status2 == "hang":
            violation(res, "wedged", "pool", f"resubmission did not terminate: {val2}; {ctx}")
        elif status2 != "ok":
            m2 = val2.get("msg", "") if isinstance(val2, dict) else ""
            psig = "pool"
            if "FileNotFoundError" in m2 and "in load_result" in m2 and "_result.pklz" in m2 and "in update_status" in m2:
                # the polling loop's load_result saw the torn result file of the killed worker
                # (exists, size > 0) and opened it just after the worker re-running the job had
                # removed the job directory: own signature, a recorded finding
                psig = "pool/load-result-toctou"
            violation(res, "resub-error", psig, f"resubmission raised {val2.get('type')}: {val2.get('msg', '')[:200]} ... {val2.get('msg', '')[-900:]}; {ctx}")
        elif val2 != rval:
            violation(res, "wrong-result", "pool", f"resubmission returned {str(val2)[:200]}, reference {str(rval)[:200]}; {ctx}")
        for key, n in enters.items():
            if n > 1:
                violation(res, "double-exec", "pool", f"{key[:80]} executed {n} times by the resubmission; {ctx}")
    finally:
        env2.close()
    return res


def run_case(case, ch, workdir):
    res = blank_result()
    if case["scen"] == "pool":
        return _run_pool_case(case, ch, workdir, res)
    scen, fine, k = case["scen"], case["fine"], case["k"]
    cache = os.path.join(workdir, "cache")
    os.makedirs(cache)
    seed = int(os.environ.get("VERIF_SEED", "0") or 0)
    real_scen = "slow" if scen == "truncate" else scen
    # cut decisions must equal the dry run's: scenario-seeded chooser
    sch = Chooser(seed=mix_seed(seed, "C12", real_scen, fine))
    sim = _sim(sch, workdir, fine, f"{real_scen}")
    res["sample"] = {"scenario": scen, "kill_at": k, "of": case["n"], "point": case["label"], "fine": fine}
    try:
        _prepare(sim, real_scen, cache, workdir)
        if scen == "truncate":
            p = sim.spawn("victim", _run, (real_scen, cache))
            _drive(sim, p)
            if p.status != "ok":
                res["harness_error"] = f"truncate setup failed {p.result}"
                return res
            (d,) = [d for d in os.listdir(cache) if os.path.isdir(os.path.join(cache, d))]
            rp = os.path.join(cache, d, "_result.pklz")
            if os.path.getsize(rp) != case["n"]:
                res["harness_error"] = f"result size {os.path.getsize(rp)} != planned {case['n']}"
                return res
            with open(rp, "rb+") as f:
                f.truncate(k)
            sim.fault("truncate")
            res["fault_trace"].append(case["label"])
            sim.events.clear()
            had_lock = True
        else:
            v = sim.spawn("victim", _run, (scen, cache, scen == "rerun_existing", scen == "foreign_host"))
            _drive(sim, v, upto=k)
            if v.state in ("done", "dead"):
                res["harness_error"] = f"victim finished before point {k}: {v.status}"
                return res
            at = sim.label_text(v.pending)
            if v.in_body:
                sim.probe("kill_inside_body")
            if v.pending and v.pending[0] == "wchunk":
                sim.probe("kill_mid_write")
            sim.kill(v)
            res["fault_trace"].append(f"SIGKILL victim at point {k}/{case['n']}: {at}")
            had_lock = any(n.endswith(".lock") for n in os.listdir(cache))
        victim_enters = [d for n, d in sim.events if d[0] == "enter"]
        victim_exits = [d for n, d in sim.events if d[0] == "exit"]
        complete = _complete_results(cache)
        shape = _residue(cache)
        n_ev = len(sim.events)
        # optional second crash during recovery / racing submitter (thorough)
        t0 = sim.now
        if case.get("double"):
            r1 = sim.spawn("recover1", _run, (real_scen, cache))
            upto = ch.randint(1, max(2, case["n"] - 1), "second_crash_at")
            _drive(sim, r1, upto=upto)
            if r1.state in ("ready", "sleeping"):
                at2 = sim.label_text(r1.pending)
                sim.kill(r1, "kill2")
                res["fault_trace"].append(f"SIGKILL recovering process at point {upto}: {at2}")
            complete = _complete_results(cache)
            n_ev = len(sim.events)
        if case.get("async_resub"):
            return _async_resub(case, ch, workdir, res, sim, cache, complete, shape, had_lock)
        names = ["resub"] + (["racer"] if case.get("race") else [])
        for nm in names:
            sim.spawn(nm, _run, (real_scen, cache))
        if case.get("race"):
            sim.burst_lo = 2
            outcome = sim.run(until=lambda: sim.now - t0 > 120.0, max_steps=60_000)
        else:
            r = sim.procs["resub"]
            outcome = "idle"
            while r.state in ("ready", "sleeping"):
                if r.state == "sleeping":
                    sim.jump_clock()
                if sim.now - t0 > 120.0 or sim.steps > 300_000:
                    outcome = "budget"
                    break
                if r.pending and r.pending[0] == "sleep":
                    sim.probe("resub_slept")
                    if abs(r.pending[1] - 0.1) < 1e-9:
                        sim.probe("torn_result_retried")  # load_result's retry sleep
                sim.step(r, 256)
        res["steps"] = sim.steps
        res["sim_s"] = sim.now - 1_700_000_000.0
        sig = scen
        new_events = sim.events[n_ev:]
        enters = {}
        for n, d in new_events:
            if d[0] == "enter":
                enters[d[1]] = enters.get(d[1], 0) + 1
        if outcome != "idle" or any(sim.procs[nm].state in ("ready", "sleeping") for nm in names):
            violation(res, "wedged", sig, f"resubmission did not terminate within 120 simulated s / budget after crash at [{case['label']}]; residue={shape}; state={[repr(sim.procs[nm]) for nm in names]}")
        else:
            exp = _expected(real_scen)
            for nm in names:
                r = sim.procs[nm]
                if real_scen == "failing":
                    if r.status != "exc" or "Fail(4) always fails" not in (r.result.get("msg", "") + r.result.get("tb", "")):
                        violation(res, "crash-as-success", sig, f"failing task: resubmission after crash at [{case['label']}] returned {r.status} {str(r.result)[:300]}")
                elif r.status != "ok":
                    violation(res, "resub-error", sig, f"{nm} after crash at [{case['label']}] (residue {shape}) raised {r.result.get('type')}: {r.result.get('msg', '')[:500]}")
                elif r.result != {"out": exp}:
                    violation(res, "wrong-result", sig, f"{nm} after crash at [{case['label']}] returned {r.result}, expected {exp}")
            # executed-or-complete
            njobs = 2 if real_scen == "wf" else 1
            had_complete = sum(1 for v in complete.values() if v)
            for key, n in enters.items():
                if n > 1 and not case.get("race"):
                    violation(res, "double-exec", sig, f"{key} executed {n} times by one resubmission")
            if real_scen != "failing" and outcome == "idle":
                executed = len(enters)
                if executed + had_complete < njobs and all(sim.procs[nm].status == "ok" for nm in names):
                    violation(res, "crash-as-success", sig, f"resubmission succeeded with {executed} executions but only {had_complete} complete result(s) on disk after crash at [{case['label']}]; residue={shape}")
            if enters:
                sim.probe("resub_reexecuted")
            else:
                sim.probe("resub_cache_hit")
        if any(n.endswith(".lock") and not n.endswith("_save.lock") for n in shape_names(shape)):
            pass
        if "lock" in shape and outcome == "idle":
            sim.probe("stale_lock_broken")
        res["faults"] = dict(sim.faults)
        res["probes"] = dict(sim.probes)
        res["nontrivial"] = bool(had_lock)
        import hashlib

        res["digest"] = hashlib.sha256(repr((scen, fine, case["label"], shape, sorted(enters.items()), outcome)).encode()).hexdigest()[:20]
    finally:
        sim.shutdown()
    return res


def _async_resub(case, ch, workdir, res, sim, cache, complete, shape, had_lock):
    """the victim (sequential submission of the workflow) is dead; the same workflow is now
    submitted through the asynchronous path on the simulated pool"""
    import hashlib

    from checks import histcommon as hc

    steps0 = sim.steps
    res["faults"] = dict(sim.faults)
    sim.shutdown()
    status, val, events, extra = hc.submit(ch, workdir, _task("wf"), cache, worker="cf", salt=case["id"])
    sig = "wf-async"
    enters = {}
    for _n, d in events:
        if d[0] == "enter":
            enters[d[1]] = enters.get(d[1], 0) + 1
    ctx = f"crash at [{case['label']}]; residue={shape}"
    if status == "hang":
        violation(res, "wedged", sig, f"asynchronous resubmission did not terminate: {val}; {ctx}")
    elif status != "ok":
        violation(res, "resub-error", sig, f"asynchronous resubmission raised {val.get('type')}: {val.get('msg', '')[:500]}; {ctx}")
    else:
        if val != {"out": _expected("wf")}:
            violation(res, "wrong-result", sig, f"asynchronous resubmission returned {val}, expected {_expected('wf')}; {ctx}")
        had_complete = sum(1 for v in complete.values() if v)
        if len(enters) + had_complete < 2:
            violation(res, "crash-as-success", sig, f"resubmission succeeded with {len(enters)} executions but only {had_complete} complete result(s) on disk; {ctx}")
    for key, n in enters.items():
        if n > 1:
            violation(res, "double-exec", sig, f"{key} executed {n} times by one resubmission; {ctx}")
    res["steps"] = steps0 + extra.get("steps", 0)
    res["sim_s"] = extra.get("sim_s", 0.0)
    res["probes"] = dict(sim.probes)
    res["probes"]["async_resubmission"] = 1
    if "lock" in shape and status == "ok":
        res["probes"]["stale_lock_broken"] = res["probes"].get("stale_lock_broken", 0) + 1
    res["nontrivial"] = bool(had_lock)
    res["digest"] = hashlib.sha256(repr(("wf-async", case["label"], shape, sorted(enters.items()), status, extra.get("digest"))).encode()).hexdigest()[:20]
    return res


def shape_names(shape):
    return shape


def summarize(cases, results):
    per = {}
    for c in cases:
        per[c["scen"]] = per.get(c["scen"], 0) + 1
    full = all(c.get("stride_full", True) for c in cases)
    return {"points_per_scenario": per, "exhaustive": os.environ.get("VERIF_TIER_FULL") == "1" or _is_full(cases)}


def _is_full(cases):
    # exhaustive over the recorded point set iff every k of every scenario is present
    seen = {}
    for c in cases:
        if "double" in c or "race" in c or c["scen"] == "pool":
            continue
        seen.setdefault((c["scen"], c["fine"]), set()).add(c["k"])
    for (scen, fine), ks in seen.items():
        n = next(c["n"] for c in cases if c["scen"] == scen and c["fine"] == fine)
        if len(ks) < n:
            return False
    return True

"""C06 — a cache hit returns what executing the task now would return."""

from __future__ import annotations

import hashlib
import importlib
import linecache
import os
import pathlib
import shlex
import subprocess
import sys
import typing as ty

from checks import histcommon as hc
from pydra.compose import python, shell
from simlib import lockstep, workload
from simlib.driver import blank_result, violation

PROP = "C06"
LEVEL = "exploration"
ENGINE = "histsim"
RULE = (
    "case = one variant pair (A,B) differing in exactly one semantically relevant aspect, drawn from a finite pool "
    "(python: function body edited on disk and reloaded, captured closure value; shell with /bin/echo|printf: "
    "executable, argstr, position, sep, formatter; inputs: content, int/float/bool/str type, list vs tuple, nesting, bytes vs "
    "str, path vs str, values of user classes (enum members, private/public attributes, slots, dataclass, attrs, same state in two classes), numpy shape, dtype, content, memory layout, strides, byte order) x a Chooser-generated history of 2-8 submissions of A, B and unrelated tasks into "
    "one cache root (both orders, repeats, reruns, debug worker or simulated pool).  Oracle per submission: outputs == "
    "executing now (function called / argv run directly); per pair: cache identities differ.  Non-trivial = both members "
    "were submitted and the second came after the first was cached; distinct = distinct (pair, history)."
)
COMPONENTS = {
    "real": ["Task._checksum/_compute_hashes", "hash_function and all bytes_repr serializers", "Job.run early return on cached result", "load_result", "ShellTask command-line rendering and execution (real subprocess)", "Submitter + DebugWorker / cf worker on SimPool"],
    "stub": ["process pool + event loop -> simloop (for 'cf' submissions)", "editing a function between sessions -> rewrite module file + importlib.reload in the same process"],
}
ASSUMPTIONS = ["tasks are deterministic; 'executing now' = calling the task's function / running its argv directly, outside pydra"]
PROBES = ["second_member_after_first_cached", "rerun", "cf_submission", "shell_pair", "numpy_pair", "python_pair"]
N = {"quick": 280, "thorough": 5000}
JOBS = 6

PAIRS = [
    "py-body", "py-closure",
    "sh-executable", "sh-argstr", "sh-position", "sh-sep", "sh-formatter",
    "in-content", "in-int-float", "in-int-bool", "in-int-str", "in-list-tuple", "in-nesting", "in-bytes-str", "in-none-zero",
    "in-path-str", "obj-enum", "obj-private", "obj-public", "obj-class", "obj-slots", "obj-dataclass", "obj-attrs",
    "np-shape", "np-dtype", "np-content", "np-int-vs-list", "np-layout", "np-strided", "np-byteorder",
]


def plan(tier, seed):
    n = N.get(tier, 280)
    return [{"id": f"{PAIRS[i % len(PAIRS)]}-{i // len(PAIRS)}", "pair": PAIRS[i % len(PAIRS)], "i": i} for i in range(n)]


def fmt_angle(v):
    return f"<{v}>"


def fmt_square(v):
    return f"[{v}]"


def _write_mod(path, body, glob=7):
    with open(path, "w") as f:
        f.write(
            "from pydra.compose import python\n"
            f"G = {glob}\n"
            "@python.define\n"
            "def Edited(x: int) -> int:\n"
            f"    {body}\n"
            "@python.define\n"
            "def UsesGlobal(x: int) -> int:\n"
            "    return x * 100 + G\n"
        )
    # make sure the file's mtime differs for the import system / linecache
    st = os.stat(path)
    os.utime(path, ns=(st.st_atime_ns, st.st_mtime_ns + 2_000_000_000))


class Member:
    """one member of a pair: how to build the task, and how to execute it 'now'"""

    def __init__(self, build, now):
        self.build = build
        self.now = now


def _py_member(factory, **inputs):
    def now():
        t = factory()(**inputs)
        return {"out": t.function(**inputs)}

    return Member(lambda: factory()(**inputs), now)


def _sh_member(cls, **inputs):
    def now():
        t = cls(**inputs)
        p = subprocess.run(shlex.split(t.cmdline), capture_output=True, text=True)
        return {"stdout": p.stdout, "return_code": p.returncode}

    return Member(lambda: cls(**inputs), now)


def make_pair(name, workdir):
    import numpy as np

    if name in ("py-body", "py-global"):
        moddir = os.path.join(workdir, "mods")
        os.makedirs(moddir, exist_ok=True)
        modpath = os.path.join(moddir, "verif_vmod.py")
        if moddir not in sys.path:
            sys.path.insert(0, moddir)

        def load(body, glob):
            def f():
                _write_mod(modpath, body, glob)
                importlib.invalidate_caches()
                linecache.checkcache(modpath)
                if "verif_vmod" in sys.modules:
                    m = importlib.reload(sys.modules["verif_vmod"])
                else:
                    m = importlib.import_module("verif_vmod")
                linecache.checkcache(modpath)
                return m.Edited if name == "py-body" else m.UsesGlobal

            return f

        if name == "py-body":
            return _py_member(load("return x + 1", 7), x=5), _py_member(load("return x + 2", 7), x=5)
        return _py_member(load("return x + 1", 7), x=5), _py_member(load("return x + 1", 8), x=5)
    if name == "py-closure":
        return _py_member(lambda: workload.make_closure_task(1), x=5), _py_member(lambda: workload.make_closure_task(2), x=5)
    if name == "py-nested-default":
        return _py_member(lambda: workload.make_default_task(1), x=5), _py_member(lambda: workload.make_default_task(2), x=5)
    if name.startswith("sh-"):
        def mk(exe="echo", argstr="-a", position=1, sep=None, formatter=None, tp=str):
            kw = {}
            if sep:
                kw["sep"] = sep
            if formatter:
                kw["formatter"] = formatter
            return shell.define(
                exe,
                inputs={
                    "v": shell.arg(type=tp, argstr=argstr, position=position, **kw),
                    "w": shell.arg(type=str, argstr="-w", position=2 if position == 1 else 1, default="W"),
                },
                name="E",
            )

        if name == "sh-executable":
            return _sh_member(mk(exe="echo"), v="x"), _sh_member(mk(exe="printf"), v="x")
        if name == "sh-argstr":
            return _sh_member(mk(argstr="-a"), v="x"), _sh_member(mk(argstr="-b"), v="x")
        if name == "sh-position":
            return _sh_member(mk(position=1), v="x"), _sh_member(mk(position=2), v="x")
        if name == "sh-sep":
            return _sh_member(mk(argstr="-l", sep=",", tp=list[str]), v=["p", "q"]), _sh_member(mk(argstr="-l", sep=":", tp=list[str]), v=["p", "q"])
        if name == "sh-formatter":
            return _sh_member(mk(argstr="", formatter=fmt_angle), v="z"), _sh_member(mk(argstr="", formatter=fmt_square), v="z")
    vals = {
        "in-content": (1, 2),
        "in-int-float": (1, 1.0),
        "in-int-bool": (1, True),
        "in-int-str": (1, "1"),
        "in-list-tuple": ([1, 2], (1, 2)),
        "in-nesting": ([[1, 2], [3]], [[1], [2, 3]]),
        "in-bytes-str": ("a", b"a"),
        "in-none-zero": (None, 0),
        "in-path-str": (pathlib.PurePosixPath("a/b"), "a/b"),
        # values of user classes: state in enum members, in underscore-prefixed or public
        # attributes, in slots, dataclass / attrs fields; same state in two classes
        "obj-enum": (workload.Interp.NEAREST, workload.Interp.CUBIC),
        "obj-private": (workload.Thresh(0.1), workload.Thresh(0.9)),
        "obj-public": (workload.Pub(1), workload.Pub(2)),
        "obj-class": (workload.Pub(1), workload.Pub2(1)),
        "obj-slots": (workload.Slotted(1, 2), workload.Slotted(1, 3)),
        "obj-dataclass": (workload.DC(1, "a"), workload.DC(1, "b")),
        "obj-attrs": (workload.AT(1, 2), workload.AT(1, 3)),
        "np-shape": (np.arange(6).reshape(2, 3), np.arange(6).reshape(3, 2)),
        "np-dtype": (np.zeros(4, dtype="int32"), np.zeros(4, dtype="float32")),
        "np-content": (np.array([1, 2, 3]), np.array([1, 2, 4])),
        "np-int-vs-list": (np.array([1, 2, 3]), [1, 2, 3]),
        # same buffer bytes, shape and dtype, different memory layout (transpose = F-contiguous view)
        "np-layout": (np.array([[1, 2], [3, 4]]), np.array([[1, 2], [3, 4]]).T),
        # a strided view vs a contiguous array of other content
        "np-strided": (np.arange(8)[::2], np.arange(4)),
        "np-byteorder": (np.array([1, 2], dtype="<i4"), np.array([1, 2], dtype=">i4")),
    }[name]

    def m(v):
        return Member(lambda: workload.Describe(v=v), lambda: {"out": workload.describe(v)})

    return m(vals[0]), m(vals[1])


def run_case(case, ch, workdir):
    res = blank_result()
    name = case["pair"]
    cache = os.path.join(workdir, "cache")
    os.makedirs(cache)
    probes = res["probes"]

    def probe(n):
        probes[n] = probes.get(n, 0) + 1

    probe("shell_pair" if name.startswith("sh-") else "numpy_pair" if name.startswith("np-") else "python_pair")
    history = []
    hsh = hashlib.sha256()
    try:
        A, B = make_pair(name, workdir)
        members = {"A": A, "B": B}
        nops = ch.randint(2, 8, "nops")
        first = ["A", "B"][ch.choose(2, "first")]
        seq = [first, "B" if first == "A" else "A"]
        while len(seq) < nops:
            seq.append(["A", "B", "U"][ch.choose(3, "next")])
        cached = set()
        checks = {}
        for op, who in enumerate(seq):
            worker = "cf" if ch.chance(1, 6, "cf") and not name.startswith("py-") else "debug"
            rerun = ch.chance(1, 6, "rerun")
            if who == "U":
                task = workload.Add(x=op, k=9)
                expect = {"out": op + 9}
            else:
                mem = members[who]
                task = mem.build()
                expect = mem.now()
                checks[who] = task._checksum
            status, val, events, extra = hc.submit(ch, workdir, task, cache, worker=worker, salt=f"{case['id']}-{op}", rerun=rerun)
            if worker == "cf":
                probe("cf_submission")
            if rerun:
                probe("rerun")
            history.append(f"{who}{'!' if rerun else ''}/{worker}:{status}")
            hsh.update(repr((who, rerun, worker, status)).encode())
            ctx = f"pair {name}, op {op} of history {history}"
            if status != "ok":
                violation(res, "no-termination" if status == "hang" else "unexpected-error", name, f"{val if status == 'hang' else val['type'] + ': ' + val['msg'][:300]}; {ctx}")
                break
            if who != "U":
                other = "B" if who == "A" else "A"
                if other in cached and who not in cached:
                    probe("second_member_after_first_cached")
                    res["nontrivial"] = True
                cached.add(who)
            for k, v in expect.items():
                if val.get(k) != v:
                    violation(res, "stale-hit" if who != "U" else "wrong-output", name, f"member {who} returned {k}={val.get(k)!r} but executing it now gives {v!r}; {ctx}")
        if "A" in checks and "B" in checks and checks["A"] == checks["B"]:
            violation(res, "shared-identity", name, f"both members of pair {name} map to cache identity {checks['A']}")
    finally:
        sys.modules.pop("verif_vmod", None)
        sys.path[:] = [p for p in sys.path if not p.endswith("/mods")]
        lockstep.reset_state()
    res["digest"] = hsh.hexdigest()[:16] + name
    res["sample"] = {"pair": name, "history": history}
    return res


def summarize(cases, results):
    return {"pair_pool": PAIRS}

"""C36 — provenance records are complete and consistent."""

from __future__ import annotations

import glob
import hashlib
import json
import os
import pickle

from checks import histcommon as hc
from checks import wfcommon as wc
from simlib import lockstep, wfgen, workload
from simlib.chooser import Chooser, mix_seed
from simlib.driver import blank_result, violation

PROP = "C36"
LEVEL = "exploration"
ENGINE = "simloop"
RULE = (
    "case = one submission with AuditFlag.PROV or ALL through the FileMessenger (message_dir in the run directory) of a "
    "task from a small pool: plain python task (succeeding / failing), generated workflow (2-5 nodes, splits, nested "
    "workflow) with a Chooser-picked, possibly empty, subset of failing jobs; worker = sequential debug worker or the "
    "simulated process pool under a seeded schedule (nested workflows interleave on the event loop; pool workers write "
    "their own messages).  Oracle over the recorded message history: one start record (startedAtTime) and one end "
    "record (endedAtTime+errored) per executed job, same @id, ids distinct between jobs, multiset of errored flags = "
    "that of the stored results.  Non-trivial = at least two jobs were audited in one submission; distinct = digest of "
    "(task, flags, worker, schedule)."
)
COMPONENTS = {
    "real": ["Audit.start_audit/audit_task/monitor/finalize_audit/audit_message", "FileMessenger.send (real files)", "Job.run / run_async", "Submitter", "DebugWorker / ConcurrentFuturesWorker on SimPool (Audit object pickled into workers)"],
    "stub": ["ResourceMonitor thread (psutil, real 0.2 s sleeps) -> deterministic one-sample fake when AuditFlag.RESOURCE is on", "process pool + event loop -> simloop"],
}
ASSUMPTIONS = ["a record is a start record iff it has 'startedAtTime' and '@type'=='job'; an end record iff it has 'endedAtTime' and 'errored'"]
PROBES = ["workflow_audited", "nested_workflow_audited", "failing_job_audited", "cf_worker", "resource_flag"]
N = {"quick": 240, "thorough": 5000}
JOBS = 6


def plan(tier, seed):
    return [{"id": f"c{i}", "i": i} for i in range(N.get(tier, 240))]


class FakeMonitor:
    """one deterministic sample instead of a psutil sampling thread"""

    def __init__(self, pid, interval=5, logdir=None, fname=None):
        from pathlib import Path

        self._fname = Path(logdir or ".") / "proc-fake.log"
        with open(self._fname, "w") as f:
            f.write("0.0,1.0,10.0,20.0\n")

    @property
    def fname(self):
        return self._fname

    def start(self):
        pass

    def stop(self):
        pass


def run_case(case, ch, workdir):
    from pydra.utils.messenger import AuditFlag, FileMessenger
    import pydra.utils.profiler as prof

    res = blank_result()
    probes = res["probes"]

    def probe(n):
        probes[n] = probes.get(n, 0) + 1

    seed = int(os.environ.get("VERIF_SEED", "0") or 0)
    cache = os.path.join(workdir, "cache")
    os.makedirs(cache)
    msgdir = os.path.join(workdir, "messages")
    os.makedirs(msgdir)
    kind = ch.pick(["plain-ok", "plain-fail", "wf", "wf", "wf", "wf-fail", "wf-fail"], "kind")
    flags = ch.pick(["PROV", "PROV", "ALL"], "flags")
    worker = ch.pick(["debug", "debug", "cf"], "worker")
    plan_path = os.path.join(workdir, "plan.json")
    plan = {}
    spec = None
    if kind.startswith("plain"):
        task = workload.Planned(x=2, tag="always" if kind == "plain-fail" else "ok")
        if kind == "plain-fail":
            plan[workload._key("Planned", 2, "always")] = "raise"
        desc = kind
    else:
        spec, sch = wc.spec_for(seed, 5000 + case["i"] // 2, max_nodes=5)
        desc = wfgen.describe(spec)
        task = workload.GenWf(spec=spec, x=wc.X, xs=wc.XS)
        rstat, rval, revents = wc.reference_run(spec, os.path.join(workdir, "refcache"))
        if rstat != "ok":
            res["digest"] = "rejected"
            res["sample"] = {"rejected": desc}
            return res
        keys = sorted(wc.exec_summary(revents)[0])
        if kind == "wf-fail" and keys:
            for _ in range(ch.pick([1, 1, 2], "nfail")):
                plan[keys[ch.choose(len(keys), "fail")]] = "raise"
    with open(plan_path, "w") as f:
        json.dump(plan, f)
    env = {"VERIF_FAULTPLAN": plan_path}
    real_monitor = prof.ResourceMonitor
    prof.ResourceMonitor = FakeMonitor
    try:
        af = AuditFlag.PROV if flags == "PROV" else AuditFlag.ALL
        if flags == "ALL":
            probe("resource_flag")
        status, val, events, extra = hc.submit(
            ch, workdir, task, cache, worker=worker, env=env, salt=case["id"],
            audit_flags=af, messengers=FileMessenger(), messenger_args={"message_dir": msgdir},
        )
    finally:
        prof.ResourceMonitor = real_monitor
        lockstep.reset_state()
    if worker == "cf":
        probe("cf_worker")
    res["steps"] = extra.get("steps", 0)
    res["sim_s"] = extra.get("sim_s", 0.0)
    # the message history
    msgs = []
    for p in sorted(glob.glob(os.path.join(msgdir, "*.jsonld"))):
        try:
            with open(p) as f:
                msgs.append(json.load(f))
        except Exception as e:  # noqa: BLE001
            violation(res, "unreadable-record", kind, f"{os.path.basename(p)}: {e}")
    starts = [m for m in msgs if "startedAtTime" in m and m.get("@type") == "job"]
    ends = [m for m in msgs if "endedAtTime" in m and "errored" in m]
    # executed jobs = job directories of the (fresh) cache root that hold a result
    jobs = {}
    for d in sorted(os.listdir(cache)):
        rp = os.path.join(cache, d, "_result.pklz")
        if os.path.isfile(rp) and (d.startswith("python-") or d.startswith("workflow-")):
            try:
                with open(rp, "rb") as f:
                    jobs[d] = bool(pickle.load(f).errored)
            except Exception:
                jobs[d] = None
    nwf = sum(1 for d in jobs if d.startswith("workflow-"))
    if nwf:
        probe("workflow_audited")
    if nwf > 1:
        probe("nested_workflow_audited")
    if any(v for v in jobs.values()):
        probe("failing_job_audited")
        res["faults"]["planned_job_failure"] = sum(1 for v in jobs.values() if v)
    res["digest"] = hashlib.sha256(repr((kind, flags, worker, desc, extra.get("digest"), sorted(plan))).encode()).hexdigest()[:20]
    res["sample"] = {"task": desc, "flags": flags, "worker": worker, "status": status, "jobs": len(jobs), "start_records": len(starts), "end_records": len(ends), "failing": sorted(plan)}
    res["nontrivial"] = len(jobs) >= 2
    sig = ("workflow" if spec is not None else "plain") + "/" + worker
    ctx = f"{kind} flags={flags} worker={worker} task={desc} failing={sorted(plan)} status={status}; jobs={len(jobs)} starts={len(starts)} ends={len(ends)}"
    if status == "hang":
        violation(res, "no-termination", sig, f"{val}; {ctx}")
        return res
    sid = [m.get("@id") for m in starts]
    eid = [m.get("@id") for m in ends]
    # A failing identity that occurs twice in one submission (two states of a nested
    # workflow with equal inputs) is executed twice - a stored failure is never served -
    # and leaves ONE job directory: then the number of directories is only a lower bound
    # for the number of executions (seen in the thorough tier: 5 of 5000 cases).
    ent = {}
    for _n, d in events:
        if d[0] == "enter":
            ent[d[1]] = ent.get(d[1], 0) + 1
    repeated = any(n > 1 for n in ent.values())
    if repeated:
        res["probes"]["failing_identity_executed_twice"] = 1
    if len(starts) != len(jobs) and not (repeated and len(starts) > len(jobs)):
        violation(res, "start-record-count", sig, f"{len(starts)} start records for {len(jobs)} executed jobs; {ctx}")
    if len(ends) != len(jobs) and not (repeated and len(ends) > len(jobs)):
        violation(res, "end-record-count", sig, f"{len(ends)} end records for {len(jobs)} executed jobs; {ctx}")
    if len(set(sid)) != len(sid):
        violation(res, "duplicate-activity-id", sig, f"start records share ids: {sid}; {ctx}")
    if len(set(eid)) != len(eid):
        violation(res, "end-id-mismatch", sig, f"several end records carry the same activity id {sorted(eid)} (starts: {sorted(sid)}); {ctx}")
    elif set(sid) != set(eid):
        violation(res, "end-id-mismatch", sig, f"end records {sorted(eid)} do not pair with start records {sorted(sid)}; {ctx}")
    if sorted(bool(m["errored"]) for m in ends) != sorted(bool(v) for v in jobs.values()) and len(ends) == len(jobs):
        violation(res, "errored-flag-mismatch", sig, f"end records say errored={sorted(bool(m['errored']) for m in ends)}, stored results say {sorted(bool(v) for v in jobs.values())}; {ctx}")
    return res

"""C07 — identical computations map to the same cache identity in every session."""

from __future__ import annotations

import hashlib
import json
import os
import subprocess
import sys

from simlib import wfgen
from simlib.driver import blank_result, violation
from simlib.paths import REPO, VERIF

PROP = "C07"
LEVEL = "exploration"
ENGINE = "sessim"
FRESH_SELFTEST = False  # every case already runs fresh interpreters
RULE = (
    "case = a Chooser-generated program of ~40 steps executed by 3 fresh interpreter sessions with different "
    "PYTHONHASHSEEDs (two distinct non-zero seeds and one more, or hashing disabled) and a different insertion order of "
    "every dict/set per session: hash of generated values (nested dict/list/tuple/set/frozenset incl. frozensets of "
    "frozensets and mixed-type sets, ints/floats/str/bytes/None/Path, numpy arrays, files), optionally after a "
    "cloudpickle round trip; Task._checksum with the value as input; an xor-group task submitted split (identity goes "
    "through bytes_repr_task/_xor); real submissions in session 1 (debug or real cf pool) re-submitted by sessions 2 and 3 "
    "after the cache root was renamed.  Oracle: equal hashes/checksums in all sessions (or an error in all), later "
    "sessions are cache hits (no body execution) with equal outputs.  Non-trivial = the value contains a dict/set with "
    ">= 2 elements; distinct = distinct value specs."
)
COMPONENTS = {
    "real": ["hash_function and all bytes_repr serializers", "Task._checksum / bytes_repr_task", "Job.run cache lookup across sessions", "cloudpickle", "real interpreters with real hash randomisation", "real ProcessPoolExecutor for the 'cf' submissions"],
    "stub": ["nothing is stubbed inside a session; the 'schedule' dimension is the hash seed and insertion order"],
}
ASSUMPTIONS = ["a value whose hashing raises must raise in every session (then it has no identity anywhere)"]
PROBES = ["frozenset_keyed_dict", "frozenset_of_frozensets", "mixed_type_set", "roundtrip", "cross_session_cache_hit", "xor_split_task", "cf_session", "numpy_value", "file_value"]
N = {"quick": 24, "thorough": 400}
JOBS = 2  # fresh interpreters do not scale in this sandbox (process start-up serialises)
CASE_WALL = 300
SHRINK_BUDGET = 2  # every re-execution costs three interpreter sessions


def plan(tier, seed):
    return [{"id": f"p{i}", "i": i} for i in range(N.get(tier, 10))]


def gen_value(ch, depth=0, hashable=False):
    kinds = ["int", "str", "float", "bool", "none", "bytes", "tuple"]
    if not hashable:
        kinds += ["list", "dict", "set", "frozenset", "nd", "path"]
    else:
        kinds += ["frozenset"]
    if depth >= 3:
        kinds = ["int", "str", "float", "bytes", "none"]
    k = kinds[ch.choose(len(kinds), "vkind")]
    if k == "int":
        return {"t": "int", "v": ch.choose(7, "int") - 2}
    if k == "str":
        return {"t": "str", "v": ["a", "b", "ab", "c", "xyz", ""][ch.choose(6, "str")]}
    if k == "float":
        return {"t": "float", "v": [0.5, 1.0, -2.25, 3.0][ch.choose(4, "float")]}
    if k == "bool":
        return {"t": "bool", "v": bool(ch.choose(2, "bool"))}
    if k == "none":
        return {"t": "none"}
    if k == "bytes":
        return {"t": "bytes", "v": ["61", "6162", ""][ch.choose(3, "bytes")]}
    if k == "path":
        return {"t": "path", "v": ["/a/b", "rel/p", "/tmp/x.txt"][ch.choose(3, "path")]}
    if k in ("list", "tuple"):
        n = ch.choose(4, "len")
        return {"t": k, "v": [gen_value(ch, depth + 1, hashable) for _ in range(n)]}
    if k == "dict":
        n = ch.randint(0, 4, "dlen")
        items, seen = [], set()
        dstyle = ch.choose(4, "dstyle")  # 0,1 generic keys; 2 frozenset keys; 3 tuples holding frozensets
        for _ in range(n):
            if dstyle >= 2 and depth < 2:
                # keys that are only partially ordered (frozensets compare by inclusion)
                fs = {"t": "frozenset", "v": [{"t": "str", "v": ["a", "b", "c", "d"][ch.choose(4, "s")]} for _ in range(ch.randint(0, 3, "inner"))]}
                kk = fs if dstyle == 2 else {"t": "tuple", "v": [fs, {"t": "int", "v": ch.choose(3, "int")}]}
            else:
                kk = gen_value(ch, depth + 1, hashable=True)
            try:
                pv = _pyval(kk)
                if pv in seen:
                    continue
                seen.add(pv)
            except TypeError:
                continue
            items.append([kk, gen_value(ch, depth + 1)])
        # keys of one type only (pydra sorts the keys)
        if items:
            t0 = items[0][0]["t"]
            items = [it for it in items if it[0]["t"] == t0]
        return {"t": "dict", "items": items}
    if k in ("set", "frozenset"):
        n = ch.randint(0, 4, "slen")
        style = ch.choose(4, "sstyle")  # 0 ints, 1 strs, 2 frozensets, 3 mixed
        els, seen = [], set()
        for _ in range(n):
            if style == 0:
                e = {"t": "int", "v": ch.choose(9, "int")}
            elif style == 1:
                e = {"t": "str", "v": ["a", "b", "ab", "c", "xyz", "q"][ch.choose(6, "str")]}
            elif style == 2 and depth < 2:
                m = ch.randint(0, 3, "inner")
                e = {"t": "frozenset", "v": [{"t": "str", "v": ["a", "b", "c", "d"][ch.choose(4, "s")]} for _ in range(m)]}
            else:
                e = gen_value(ch, depth + 1, hashable=True)
            try:
                pv = _pyval(e)
                if pv in seen:
                    continue
                seen.add(pv)
            except TypeError:
                continue
            els.append(e)
        return {"t": k, "v": els}
    if k == "nd":
        shp = [[3], [2, 2], [1, 4]][ch.choose(3, "shape")]
        n = 1
        for s in shp:
            n *= s
        return {"t": "nd", "dtype": ["int64", "float32", "uint8"][ch.choose(3, "dtype")], "shape": shp, "data": [ch.choose(5, "nd") for _ in range(n)]}
    raise AssertionError(k)


def _pyval(spec):
    """hashable Python value of a hashable spec (used to keep generated set elements /
    dict keys pairwise unequal: 1, 1.0 and True are ONE element of a Python set, and
    which of them survives depends on the insertion order - that is Python, not pydra)"""
    t = spec["t"]
    if t in ("int", "float", "str", "bool"):
        return spec["v"]
    if t == "none":
        return None
    if t == "bytes":
        return bytes.fromhex(spec["v"])
    if t == "tuple":
        return tuple(_pyval(s) for s in spec["v"])
    if t == "frozenset":
        return frozenset(_pyval(s) for s in spec["v"])
    return json.dumps(spec, sort_keys=True)


def features(spec, out=None):
    out = out if out is not None else set()
    t = spec.get("t")
    if t in ("set", "frozenset"):
        if len(spec["v"]) >= 2:
            out.add("multi")
        if any(e["t"] == "frozenset" for e in spec["v"]):
            out.add("frozenset_of_frozensets")
        if len({e["t"] for e in spec["v"]}) > 1:
            out.add("mixed_type_set")
        for e in spec["v"]:
            features(e, out)
    elif t == "dict":
        if len(spec["items"]) >= 2:
            out.add("multi")
            if spec["items"][0][0]["t"] in ("frozenset", "tuple"):
                out.add("frozenset_keyed_dict")
        for k, v in spec["items"]:
            features(k, out)
            features(v, out)
    elif t in ("list", "tuple"):
        for e in spec["v"]:
            features(e, out)
    elif t == "nd":
        out.add("numpy_value")
    elif t == "file":
        out.add("file_value")
    return out


def run_session(workdir, idx, hashseed, perm, steps, evlog):
    prog = os.path.join(workdir, f"prog{idx}.json")
    outp = os.path.join(workdir, f"out{idx}.json")
    with open(prog, "w") as f:
        json.dump({"perm": perm, "steps": steps, "evlog": evlog}, f)
    env = {k: v for k, v in os.environ.items() if not k.startswith("VERIF_RUN")}
    env.update({"PYTHONHASHSEED": str(hashseed), "PYTHONPATH": REPO + ":" + VERIF, "PYTHONDONTWRITEBYTECODE": "1", "PYDRA_HASH_CACHE": os.path.join(workdir, "hashcache")})
    p = subprocess.run([sys.executable, "-m", "simlib.session", prog, outp], env=env, capture_output=True, text=True, timeout=240, cwd="/verif")
    if not os.path.exists(outp):
        raise RuntimeError(f"session {idx} produced no output: {p.stderr[-1500:]}")
    with open(outp) as f:
        return json.load(f)


def run_case(case, ch, workdir):
    res = blank_result()
    probes = res["probes"]

    def probe(n):
        probes[n] = probes.get(n, 0) + 1

    files = os.path.join(workdir, "files")
    os.makedirs(files)
    steps = []
    feats = {}
    nvals = 30
    for i in range(nvals):
        v = gen_value(ch)
        if ch.chance(1, 12, "file"):
            v = {"t": "list", "v": [{"t": "file", "dir": files, "name": "in.txt", "content": f"content-{i}"}, v]}
        sid = f"v{i}"
        feats[sid] = features(v)
        rt = ch.chance(1, 4, "roundtrip")
        steps.append({"id": sid, "kind": "hash", "value": v, "roundtrip": rt})
        if rt:
            probe("roundtrip")
        if ch.chance(1, 3, "checksum"):
            steps.append({"id": sid + "c", "kind": "checksum", "value": v})
            feats[sid + "c"] = feats[sid]
    steps.append({"id": "xor", "kind": "xor-checksum", "c": 1, "a": [1, 2]})
    feats["xor"] = {"xor"}
    probe("xor_split_task")
    # submissions: session 1 computes, later sessions must hit the cache
    cache_names = [os.path.join(workdir, f"cache-s{k}") for k in range(3)]
    sub_steps = []
    for i in range(4):
        v = gen_value(ch)
        sid = f"sub{i}"
        feats[sid] = features(v)
        sub_steps.append({"id": sid, "kind": "submit", "value": v, "worker": "cf" if (i == 0 and ch.chance(1, 2, "cf")) else "debug"})
    sub_steps.append({"id": "subxor", "kind": "submit-xor", "c": 2, "a": [3, 4]})
    feats["subxor"] = {"xor"}
    from checks import wfcommon as wc

    seed = int(os.environ.get("VERIF_SEED", "0") or 0)
    spec, _ = wc.spec_for(seed, 7000 + case["i"], max_nodes=4, nested=False)
    sub_steps.append({"id": "subwf", "kind": "submit-wf", "spec": spec, "worker": "debug"})
    feats["subwf"] = {"wf"}
    if any(s.get("worker") == "cf" for s in sub_steps):
        probe("cf_session")
    seeds = [ch.randint(1, 4000, "hs1")]
    s2 = ch.randint(1, 4000, "hs2")
    seeds.append(s2 if s2 != seeds[0] else s2 + 1)
    seeds.append(ch.pick([0, 7, 123456], "hs3"))
    outs = []
    evlogs = []
    for k, hs in enumerate(seeds):
        if k > 0:
            os.rename(cache_names[k - 1], cache_names[k])  # the cache root moves between sessions
        evlog = os.path.join(workdir, f"ev{k}.log")
        evlogs.append(evlog)
        ss = [dict(s, cache=cache_names[k]) if s["kind"].startswith("submit") else s for s in steps + sub_steps]
        outs.append(run_session(workdir, k, hs, perm=1000 + k, steps=ss, evlog=evlog))
    res["sample"] = {"hashseeds": seeds, "steps": len(steps) + len(sub_steps), "example_value": steps[0]["value"]}
    hsh = hashlib.sha256(json.dumps([steps, sub_steps], sort_keys=True).replace(workdir, "$W").encode())
    res["digest"] = hsh.hexdigest()[:20]
    by = [{r["id"]: r for r in o["results"]} for o in outs]
    nontriv = 0
    for sid in by[0]:
        rs = [b.get(sid, {}) for b in by]
        f = feats.get(sid, set())
        for p in ("frozenset_of_frozensets", "mixed_type_set", "numpy_value", "file_value", "frozenset_keyed_dict"):
            if p in f:
                probe(p)
        if "multi" in f or "xor" in f or "wf" in f:
            nontriv += 1
        sig = "frozenset-keyed-dict" if "frozenset_keyed_dict" in f else "frozenset-of-frozensets" if "frozenset_of_frozensets" in f else "mixed-type-set" if "mixed_type_set" in f else "xor-task" if "xor" in f else "workflow" if "wf" in f else "value"
        errs = [("error" in r) for r in rs]
        spec_txt = json.dumps(next((s.get("value", s.get("spec", "")) for s in steps + sub_steps if s["id"] == sid), ""))[:300]
        if any(errs) and not all(errs):
            violation(res, "raises-in-some-sessions", sig, f"step {sid} ({spec_txt}): results per session (hash seeds {seeds}): {[r.get('error', 'ok') for r in rs]}")
            continue
        if all(errs):
            continue
        for key in ("hash", "checksum"):
            vals = [r.get(key) for r in rs]
            if vals[0] is not None and len(set(vals)) != 1:
                violation(res, f"{key}-differs-between-sessions", sig, f"step {sid} ({spec_txt}): {key} per session (hash seeds {seeds}) = {vals}")
        if sid.startswith("sub"):
            o = [json.dumps(r.get("out"), sort_keys=True, default=repr) for r in rs]
            if len(set(o)) != 1:
                violation(res, "outputs-differ-between-sessions", sig, f"step {sid}: {o}")
    # cache reuse: sessions 2 and 3 must not execute any body
    for k in (1, 2):
        n = 0
        if os.path.exists(evlogs[k]):
            with open(evlogs[k]) as f:
                n = sum(1 for ln in f if '"enter"' in ln)
        if n:
            with open(evlogs[k]) as f:
                which = [json.loads(ln)[2] for ln in f if '"enter"' in ln][:3]
            violation(res, "not-found-by-next-session", "resubmission", f"session {k + 1} (hash seed {seeds[k]}, renamed cache root) executed {n} task bodies that session 1 had cached, e.g. {which}")
        else:
            probe("cross_session_cache_hit")
    res["nontrivial"] = nontriv >= 2
    res["sample"]["nontrivial_steps"] = nontriv
    return res

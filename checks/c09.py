"""C09 — file hashes always reflect current file content (histories under a simulated FS clock)."""

from __future__ import annotations

import hashlib
import os
import shutil

from checks import histcommon as hc
from simlib import lockstep, workload
from simlib import rt as _rt
from simlib.driver import blank_result, violation

PROP = "C09"
LEVEL = "exploration"
ENGINE = "histsim"
RULE = (
    "case = Chooser-generated history of 4-10 operations over 2-3 paths (plain files and one directory with nested "
    "files) under a simulated file-system clock (timestamp resolution per run in 1 ns / 1 us / 1 ms / 1 s / 2 s; the "
    "kernel's timestamps of tracked inodes are replaced by the simulated clock quantised to that resolution): write "
    "same-size or different-size content, advance the clock by 0 / less than / at least / much more than the resolution, "
    "restore or set an older mtime (ctime becomes 'now'), rename another file over the path, "
    "copy with preserved timestamps, hash the file (fresh PersistentCache object over the on-disk store, as every "
    "session gets), submit a task that reads the file.  Oracle: every hash equals the hash computed with an empty "
    "persistent cache; a task submission returns the current content.  Non-trivial = content changed between two hashes "
    "of the same path; distinct = distinct history digest."
)
COMPONENTS = {
    "real": ["hash_function", "bytes_repr_fileset (cache key)", "PersistentCache on disk", "fileformats File/Directory byte_chunks", "Task._checksum with a File input", "Job.run cache lookup", "real files on tmpfs"],
    "stub": ["kernel timestamps of tracked files -> simulated FS clock table (os.stat/lstat/fstat results rebuilt)", "time.time/datetime.now -> simulated clock"],
}
ASSUMPTIONS = [
    "timestamps behave like a POSIX file system's: mtime settable by the user, ctime not; both quantised to the run's resolution",
    "a rename keeps the inode's timestamps except ctime; a timestamp-preserving copy gets a new inode with the source's mtime",
]
PROBES = ["same_tick_rewrite", "mtime_restored", "rename_over", "copy_preserved", "task_submission", "directory_hash", "persistent_hit"]
N = {"quick": 2500, "thorough": 40000}
CONTENTS = [b"alpha-1", b"alpha-2", b"beta-22222", b"g"]  # two same-size, two other sizes


def plan(tier, seed):
    return [{"id": f"h{i}", "i": i} for i in range(N.get(tier, 400))]


class FsClock:
    def __init__(self, rt, res_ns):
        self.rt = rt
        self.res = res_ns
        self.table = {}  # ino -> [mtime_ns, ctime_ns]

    def now_ns(self):
        t = int(round(self.rt.now() * 1e9))
        return t - t % self.res

    def touch(self, path, content_changed=True):
        ino = _rt.real_os_lstat(path).st_ino
        n = self.now_ns()
        if ino in self.table and not content_changed:
            self.table[ino][1] = n
        else:
            self.table[ino] = [n, n]

    def hook(self, st):
        e = self.table.get(st.st_ino)
        if e is None:
            return st
        return _rt.restamp(st, e[0], e[1])


def _hash(path, kind, store):
    from fileformats.generic import Directory, File
    from pydra.utils.hash import hash_function

    obj = Directory(path) if kind == "dir" else File(path)
    h = hash_function(obj, persistent_cache=store)
    return h if isinstance(h, str) else bytes(h).hex()


def run_case(case, ch, workdir):
    res = blank_result()
    probes = res["probes"]

    def probe(n):
        probes[n] = probes.get(n, 0) + 1

    files = os.path.join(workdir, "files")
    os.makedirs(files)
    store = os.path.join(workdir, "hashstore")
    cache = os.path.join(workdir, "cache")
    os.makedirs(cache)
    res_ns = ch.pick([1, 1_000, 1_000_000, 1_000_000_000, 2_000_000_000], "resolution")
    rt = _rt.SoloRT(limit=1e12)
    old = _rt.RT
    _rt.install(rt)
    clock = FsClock(rt, res_ns)
    _rt.STAT_HOOK = clock.hook
    saved_env = os.environ.get("PYDRA_HASH_CACHE")
    os.environ["PYDRA_HASH_CACHE"] = store
    history = []
    hsh = hashlib.sha256()
    paths = {"a": ("file", os.path.join(files, "a.txt")), "b": ("file", os.path.join(files, "b.txt")), "d": ("dir", os.path.join(files, "d"))}
    try:
        # initial content
        for name, (kind, p) in paths.items():
            if kind == "dir":
                os.makedirs(p)
                clock.touch(p)
                for sub in ("x.txt", "y.txt"):
                    with open(os.path.join(p, sub), "wb") as f:
                        f.write(CONTENTS[0])
                    clock.touch(os.path.join(p, sub))
            else:
                with open(p, "wb") as f:
                    f.write(CONTENTS[0])
                clock.touch(p)
        rt.sleep(ch.pick([0.0, 5.0], "t0"))
        content_at_last_hash = {}
        keys_cached = {}  # name -> every (mtime, ctime, size, inode) state at which a correct hash was cached
        nops = ch.randint(4, 10, "nops")
        focus = ch.pick(["a", "a", "b", "d"], "focus")
        for op in range(nops):
            name = focus if ch.choose(4, "focus?") else ch.pick(sorted(paths), "path")
            kind, p = paths[name]
            target = p if kind == "file" else os.path.join(p, "x.txt")
            what = ch.pick(["write", "write", "advance", "advance", "hash", "hash", "hash", "set_mtime", "rename_over", "copy_over", "submit"], "op")
            rt.sleep(2e-6)  # every operation takes a little time: no two operations share an instant
            res_s = res_ns / 1e9
            if what == "write":
                c = CONTENTS[ch.choose(len(CONTENTS), "content")]
                with open(target, "rb") as f:
                    prev = f.read()
                with open(target, "wb") as f:
                    f.write(c)
                clock.touch(target)
                if kind == "dir":
                    pass  # modifying a nested file does not change the directory's own mtime
                history.append(f"write({name},{c.decode()})")
                if content_at_last_hash.get(name, (None, None))[1] == clock.table[_rt.real_os_lstat(target).st_ino][0] and prev != c:
                    probe("same_tick_rewrite")
            elif what == "advance":
                dt = ch.pick([0.0, res_s / 3, res_s, res_s * 1.5, 100.0 + res_s], "dt")
                rt.sleep(dt)
                history.append(f"advance({dt:g})")
            elif what == "back":
                rt._now -= ch.pick([res_s, 3.0], "back")
                clock_back = True
                probe("clock_backwards")
                res["faults"]["clock_backwards"] = res["faults"].get("clock_backwards", 0) + 1
                history.append("clock-back")
            elif what == "set_mtime":
                ino = _rt.real_os_lstat(target).st_ino
                base = content_at_last_hash.get(name, (None, clock.table[ino][0]))[1]
                clock.table[ino] = [base, clock.now_ns()]
                probe("mtime_restored")
                history.append(f"set_mtime({name},->{'last-hashed' })")
            elif what in ("rename_over", "copy_over"):
                c = CONTENTS[ch.choose(len(CONTENTS), "content")]
                tmp = os.path.join(files, f"tmp{op}")
                with open(tmp, "wb") as f:
                    f.write(c)
                old_ino = _rt.real_os_lstat(target).st_ino
                old_m = clock.table[old_ino][0]
                clock.touch(tmp)
                if what == "rename_over":
                    # the replacing file carries the mtime of the file it replaces (e.g. rsync -t / restore from backup)
                    clock.table[_rt.real_os_lstat(tmp).st_ino] = [old_m, clock.now_ns()]
                    os.replace(tmp, target)
                    probe("rename_over")
                else:
                    with open(tmp, "rb") as src, open(target, "wb") as dst:
                        dst.write(src.read())
                    os.unlink(tmp)
                    clock.table[_rt.real_os_lstat(target).st_ino] = [old_m, clock.now_ns()]
                    probe("copy_preserved")
                history.append(f"{what}({name},{c.decode()})")
            elif what == "hash":
                got = _hash(p, kind, store)
                ref_store = os.path.join(workdir, f"empty{op}")
                ref = _hash(p, kind, ref_store)
                shutil.rmtree(ref_store, ignore_errors=True)
                with open(target, "rb") as f:
                    cur = f.read()
                prev = content_at_last_hash.get(name)
                if prev is not None and prev[0] != cur:
                    res["nontrivial"] = True
                if prev is not None and prev[0] == cur:
                    probe("persistent_hit")
                if kind == "dir":
                    probe("directory_hash")
                content_at_last_hash[name] = (cur, clock.table[_rt.real_os_lstat(target).st_ino][0])
                key_now = _statkey(clock, target)
                same_state = key_now in keys_cached.setdefault(name, set())
                if got == ref:
                    keys_cached[name].add(key_now)
                history.append(f"hash({name})")
                if got != ref:
                    # identical (mtime, ctime, size, inode) as when the stale entry was cached:
                    # everything happened within one tick of the timestamp resolution
                    cls = "rewrite-same-tick" if same_state else _classify(history, name)
                    sig = ("dir-nested-" if kind == "dir" else "") + cls
                    violation(res, "stale-hash", sig, f"hash of {name} is {got[:12]}, but its current content hashes to {ref[:12]} (resolution {res_ns} ns); history={history}")
                    break
            elif what == "submit":
                if kind == "dir":
                    continue
                from fileformats.generic import File

                with open(p, "rb") as f:
                    cur = f.read().decode()
                status, val, events, extra = hc.submit(ch, workdir, workload.ReadFile(f=File(p)), cache, worker="debug")
                sk = _statkey(clock, p)
                _rt.install(rt)  # hc.submit switches the runtime; switch back
                _rt.STAT_HOOK = clock.hook
                probe("task_submission")
                history.append(f"submit({name})")
                if status != "ok":
                    violation(res, "unexpected-error", "submit", f"{val}; history={history}")
                    break
                if val.get("out") == cur:
                    keys_cached.setdefault(name, set()).add(sk)
                if val.get("out") != cur:
                    violation(res, "stale-task-result", "rewrite-same-tick" if _statkey(clock, p) in keys_cached.get(name, set()) else _classify(history, name), f"task returned {val.get('out')!r} but the file now contains {cur!r} (resolution {res_ns} ns); history={history}")
                    break
            hsh.update(repr(history[-1] if history else "").encode())
    finally:
        _rt.STAT_HOOK = None
        _rt.set_rt(old if old is not None else _rt.NullRT())
        if saved_env is None:
            os.environ.pop("PYDRA_HASH_CACHE", None)
        else:
            os.environ["PYDRA_HASH_CACHE"] = saved_env
        lockstep.reset_state()
    res["digest"] = hsh.hexdigest()[:20]
    res["sample"] = {"resolution_ns": res_ns, "history": history}
    return res


def _statkey(clock, path):
    st = _rt.real_os_lstat(path)
    e = clock.table.get(st.st_ino, [0, 0])
    return (e[0], e[1], st.st_size, st.st_ino)


def _classify(history, name):
    """scenario signature from the operations on `name` since its previous hash/submission"""
    ops = [(h.split("(")[0], h.split("(")[1].split(",")[0].rstrip(")") if "(" in h else "") for h in history[:-1]]
    last = max((i for i, (o, n) in enumerate(ops) if o in ("hash", "submit") and n == name), default=-1)
    since = {o for o, n in ops[last + 1 :] if n == name}
    for k in ("set_mtime", "rename_over", "copy_over"):
        if k in since:
            return k
    if "write" in since:
        return "rewrite-same-tick"
    return "other"

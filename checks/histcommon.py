"""histsim: histories of submissions through pydra's public API in one process, checked
operation by operation against a small executable reference model."""

from __future__ import annotations

import os

import attrs

from checks import wfcommon as wc
from simlib import rt as _rt
from simlib import simloop


def outputs_plain(out):
    """Outputs object -> dict of plain values (NOTHING kept as the string 'NOTHING')"""
    d = {}
    for a in attrs.fields(type(out)):
        if a.name.startswith("_"):
            continue
        v = getattr(out, a.name)
        d[a.name] = "NOTHING" if v is attrs.NOTHING else wc.plain(v)
    return d


def err_info(e):
    return {"type": type(e).__name__, "msg": str(e), "notes": list(getattr(e, "__notes__", []))}


def submit(ch, workdir, task, cache, worker="debug", env=None, salt="", prof=None, **kw):
    """One submission.  Returns (status, outputs-dict | error-info, events, extra)."""
    env = env or {}
    if worker == "debug":
        rec = _rt.SoloRT()
        old = _rt.RT
        _rt.install(rec)
        _rt._uuid_counter[0] = 0
        rec.uuid_salt = salt
        saved = {k: os.environ.get(k) for k in env}
        os.environ.update(env)
        try:
            try:
                out = task(cache_root=cache, worker="debug", **kw)
                return "ok", outputs_plain(out), rec.events, {}
            except _rt.SimHang as e:
                return "hang", str(e), rec.events, {}
            except Exception as e:  # noqa: BLE001
                if rec.hung:
                    return "hang", f"slept {rec.slept:.0f} simulated s (surfaced as {type(e).__name__})", rec.events, {}
                return "exc", err_info(e), rec.events, {}
        finally:
            _rt.set_rt(old if old is not None else _rt.NullRT())
            for k, v in saved.items():
                if v is None:
                    os.environ.pop(k, None)
                else:
                    os.environ[k] = v
    prof = dict(prof or {"fine": False, "step_workers": True, "burst_lo": 0, "n_procs": 2, "timer_bias": 3, "hold_body": 0, "ext_steps_max": 2})
    senv = simloop.SimEnv(ch, workdir, n_procs=prof["n_procs"], fine=prof.get("fine", False), uuid_salt=salt, profile=prof)
    senv.sim.env = dict(env)
    saved = {k: os.environ.get(k) for k in env}
    os.environ.update(env)

    def go():
        out = task(cache_root=cache, worker="cf", n_procs=prof["n_procs"], **kw)
        return outputs_plain(out)

    try:
        status, val = senv.run(go)
        events = list(senv.sim.events)
        extra = {"steps": senv.sim.steps, "digest": senv.sim.digest(), "sim_s": senv.sim.now - _rt.EPOCH}
    finally:
        senv.close()
        for k, v in saved.items():
            if v is None:
                os.environ.pop(k, None)
            else:
                os.environ[k] = v
    return status, val, events, extra


def enters(events):
    out = {}
    for _n, d in events:
        if d[0] == "enter":
            out[d[1]] = out.get(d[1], 0) + 1
    return out


def tree_snapshot(root):
    """path -> (size, sha1) of every file under root (for 'never modified' checks)"""
    import hashlib

    snap = {}
    for dp, dn, fn in os.walk(root):
        dn.sort()
        for f in sorted(fn):
            p = os.path.join(dp, f)
            try:
                with open(p, "rb") as fh:
                    snap[os.path.relpath(p, root)] = hashlib.sha1(fh.read()).hexdigest()
            except OSError:
                snap[os.path.relpath(p, root)] = "unreadable"
        if not dn and not fn:
            snap[os.path.relpath(dp, root) + "/"] = "emptydir"
    return snap

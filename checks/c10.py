"""C10 — concurrent submitters of one job share a single execution (lockstep engine)."""

from __future__ import annotations

import os

from simlib import lockstep, workload
from simlib.driver import blank_result, violation

PROP = "C10"
LEVEL = "exploration"
ENGINE = "lockstep"
RULE = (
    "case = Chooser-generated (scenario in plain/slow/pre-existing result/pre-existing errored result/workflow with 2-4 sequential submitter processes, or one asynchronous submitter (simulated pool, PydraFileLock) racing 1-2 sequential ones on the same workflow, "
    "trace granularity, burst length, chunked writes, stall faults of simulated 0.05-30 s); every "
    "pre-emption choice is seeded. Non-trivial = at least one context switch between two live "
    "submitters happened while one of them was between lock acquire and release; distinct = distinct "
    "SHA-256 of the full step/event order."
)
COMPONENTS = {
    "real": ["Task.__call__", "Submitter", "DebugWorker", "Job.run", "load_result/save", "filelock.SoftFileLock (real PIDs)", "cloudpickle", "tmpfs", "fork/waitpid"],
    "stub": ["OS scheduler -> lockstep controller", "time.sleep/time/perf_counter -> simulated clock", "lock-file mtime/ctime -> simulated FS clock", "buffered file writes -> chunked unbuffered writes", "etelemetry version check -> constant"],
}
ASSUMPTIONS = [
    "pre-emption at Python line granularity of pydra/engine/job.py, result.py (and filelock in fine runs), plus sleeps, write chunks and body points",
    "all submitters on one host and one tmpfs; clean_stale_locks=False as the docs require for a shared cache",
    "mutual exclusion itself is filelock's O_EXCL protocol (a dependency)",
]
PROBES = ["stall_with_empty_lock_marker", "errored_result_preexisting", "pydrafilelock_waited", "contender_polled_lock", "stall_fired", "switch_while_lock_held", "switch_mid_result_write", "cache_hit_by_late_submitter"]


def plan(tier, seed):
    n = {"quick": 320, "thorough": 6000}.get(tier, 320)
    return [{"i": i} for i in range(n)]


def _submit(kind, cache, x, npoints):
    if kind == "wf":
        t = workload.Chain2(x=x)
    elif kind == "slow":
        t = workload.Slow(x=x, npoints=npoints)
    else:
        t = workload.Add(x=x, k=3)
    out = t(cache_root=cache, worker="debug", clean_stale_locks=False)
    return {"out": out.out}


def _empty_marker(cache):
    try:
        return any(n.endswith(".lock") and os.path.getsize(os.path.join(cache, n)) == 0 for n in os.listdir(cache))
    except OSError:
        return False


def _expected(kind, x):
    if kind == "wf":
        return 2 * (x + 1) + 1
    if kind == "slow":
        return 2 * x + 1
    return x + 3


def _run_async_case(case, ch, workdir, res):
    """One submitter runs the workflow through the asynchronous loop (cf worker on the
    simulated pool, PydraFileLock polling with asyncio.sleep), the other is a separate
    process running it through the sequential loop, both into one cache root."""
    from checks import wfcommon as wc
    from simlib import simloop

    x = ch.randint(0, 5, "x")
    cache = os.path.join(workdir, "cache")
    os.makedirs(cache)
    prof = wc.gen_profile(ch)
    prof["n_procs"] = 2
    env = simloop.SimEnv(ch, workdir, n_procs=2, fine=prof["fine"], uuid_salt=case["id"], profile=prof)
    import pydra.engine.job as _jobmod

    env.add_line_probe(_jobmod, "await asyncio.sleep(self.timeout)", "pydrafilelock_waited")
    nother = ch.randint(1, 2, "n-other")
    started = [False]

    def go():
        if not started[0]:
            started[0] = True
            for i in range(nother):
                env.sim.spawn(f"xsub{i}", _submit, ("wf", cache, x, 2))
        out = workload.Chain2(x=x)(cache_root=cache, worker="cf", n_procs=2)
        return {"out": out.out}

    status, val = env.run(go)
    try:
        sim = env.sim
        # let the other submitters finish (fair phase)
        sim.run(fair=True, max_steps=60_000)
        res["steps"] = sim.steps
        res["sim_s"] = sim.now - 1_700_000_000.0
        res["digest"] = sim.digest()
        res["faults"] = dict(sim.faults)
        res["probes"] = dict(sim.probes)
        res["sample"] = {"scenario": "wf-async-vs-sync", "other_submitters": nother, "x": x, "status": status}
        res["nontrivial"] = True
        sig = "wf-async"
        exp = {"out": _expected("wf", x)}
        if status == "hang":
            violation(res, "liveness", sig, f"asynchronous submitter did not terminate: {val}")
        elif status != "ok":
            violation(res, "submitter-error", sig, f"asynchronous submitter raised {val.get('type')}: {val.get('msg', '')[:500]}")
        elif val != exp:
            violation(res, "wrong-output", sig, f"asynchronous submitter returned {val}, expected {exp}")
        for i in range(nother):
            p = sim.procs[f"xsub{i}"]
            if p.state != "done":
                violation(res, "liveness", sig, f"sequential submitter {p.name} did not terminate: {p!r}")
            elif p.status != "ok":
                violation(res, "submitter-error", sig, f"{p.name}: {p.result.get('type')}: {p.result.get('msg', '')[:500]}")
            elif p.result != exp:
                violation(res, "wrong-output", sig, f"{p.name} returned {p.result}, expected {exp}")
        enters = {}
        for _n, d in sim.events:
            if d[0] == "enter":
                enters[d[1]] = enters.get(d[1], 0) + 1
        for k, n in enters.items():
            if n != 1:
                violation(res, "exec-count", sig, f"body {k} executed {n} times by {1 + nother} concurrent submitters of one workflow")
        wfbodies = sum(1 for _n, d in sim.events if d[0] == "wf-body")
        if wfbodies != 1 and status == "ok":
            violation(res, "exec-count", sig, f"the workflow itself was expanded {wfbodies} times by {1 + nother} concurrent submitters, expected exactly once")
    finally:
        env.close()
    return res


def run_case(case, ch, workdir):
    res = blank_result()
    scen = ch.pick(["plain", "slow", "preexisting", "wf", "slow", "wf", "async", "preerrored"], "scenario")
    if scen == "async":
        return _run_async_case(case, ch, workdir, res)
    kind = {"plain": "plain", "slow": "slow", "preexisting": "slow", "wf": "wf", "preerrored": "slow"}[scen]
    nsub = ch.randint(2, 4, "nsub")
    fine = ch.chance(1, 4, "fine")
    burst_lo = ch.pick([0, 0, 2, 3, 4], "burst_lo")
    stall_den = ch.pick([0, 0, 30, 100], "stall_den")
    npoints = ch.randint(1, 4, "npoints")
    x = ch.randint(0, 5, "x")
    cache = os.path.join(workdir, "cache")
    os.makedirs(cache)
    sim = lockstep.Sim(
        ch,
        workdir,
        trace_files=lockstep.pydra_trace_files(fine=fine),
        chunk_writes=True,
        max_steps=60_000 if fine else 25_000,
        uuid_salt=f"{case['id']}",
    )
    sim.burst_lo = burst_lo
    sim.fault_every_burst = bool(stall_den)
    res["sample"] = {"scenario": scen, "submitters": nsub, "fine": fine, "burst_lo": burst_lo, "stall_den": stall_den, "npoints": npoints, "x": x}
    try:
        if scen == "preexisting":
            p = sim.spawn("pre", _submit, (kind, cache, x, npoints))
            sim.run()
            if p.status != "ok":
                res["harness_error"] = f"pre-population failed: {p.result}"
                return res
            sim.events.clear()
        if scen == "preerrored":
            # an earlier run of the same job failed (its errored result is in the cache);
            # the cause is gone when the concurrent submitters arrive
            import json

            plan_path = os.path.join(workdir, "plan.json")
            with open(plan_path, "w") as f:
                json.dump({workload._key("Slow", x, npoints): "raise"}, f)
            p = sim.spawn("pre", _submit, (kind, cache, x, npoints), env={"VERIF_FAULTPLAN": plan_path})
            sim.run()
            if p.status != "exc":
                res["harness_error"] = f"pre-failure did not fail: {p.status} {p.result}"
                return res
            os.unlink(plan_path)
            sim.events.clear()
            sim.probe("errored_result_preexisting")
        for i in range(nsub):
            sim.spawn(f"s{i}", _submit, (kind, cache, x, npoints))
        subs = [sim.procs[f"s{i}"] for i in range(nsub)]
        inlock_switch = [0]
        empty_marker_stall = [False]

        def before(p):
            # stalls are placed on a process that currently holds something in flight
            if stall_den and p.steps > 3 and ch.chance(1, stall_den, "stall"):
                dt = ch.pick([0.05, 0.3, 3.0, 30.0], "stall_dt")
                if dt >= 2.0 and _empty_marker(cache):
                    # the stalled process sits between filelock's O_EXCL create and the
                    # write of its owner record: filelock (by design) lets a contender break
                    # a marker that stays empty for 2 s
                    empty_marker_stall[0] = True
                    sim.probe("stall_with_empty_lock_marker")
                sim.stall(p, dt)
                sim.probe("stall_fired")
                return "skip"
            if p.pending and p.pending[0] == "sleep":
                sim.probe("contender_polled_lock")
            return None

        prev = [None]

        def hook(p):
            if prev[0] is not None and prev[0] is not p:
                pp = prev[0].pending
                if pp and pp[0] == "wchunk" and pp[1][0] == "_result.pklz" and pp[1][1] > 0:
                    sim.probe("switch_mid_result_write")
                try:
                    if any(f.endswith(".lock") for f in os.listdir(cache)):
                        inlock_switch[0] += 1
                except OSError:
                    pass
            prev[0] = p

        sim.point_hook = hook
        outcome = sim.run(before_step=before)
        if outcome == "budget":
            # bounded liveness: fault-free fair phase
            outcome = sim.run(fair=True, max_steps=40_000)
        res["steps"] = sim.steps
        res["sim_s"] = sim.now - 1_700_000_000.0
        res["faults"] = dict(sim.faults)
        sim.probe("switch_while_lock_held", inlock_switch[0])
        res["digest"] = sim.digest()
        res["nontrivial"] = inlock_switch[0] > 0
        sig = scen if not empty_marker_stall[0] else "filelock-empty-marker-window"
        if outcome != "idle":
            violation(res, "liveness", sig, f"submitters still running after {sim.steps} steps / {res['sim_s']:.1f} simulated s: {[repr(p) for p in sim.live()]}")
        enters = {}
        for name, data in sim.events:
            if data[0] == "enter":
                enters[data[1]] = enters.get(data[1], 0) + 1
        wfbodies = sum(1 for _n, d in sim.events if d[0] == "wf-body")
        if kind == "wf" and outcome == "idle" and wfbodies != 1:
            violation(res, "exec-count", sig, f"the workflow itself was expanded {wfbodies} times by {nsub} concurrent submitters, expected exactly once")
        want = 0 if scen == "preexisting" else 1
        nkeys = 2 if kind == "wf" else 1
        if scen != "preexisting" and len(enters) != nkeys and outcome == "idle":
            violation(res, "exec-count", sig, f"executed bodies {enters}, expected {nkeys} distinct jobs")
        for k, n in enters.items():
            if n != want:
                violation(res, "exec-count", sig, f"body {k} executed {n} times, expected {want} (submitters={nsub})")
        exp = _expected(kind, x)
        for p in subs:
            if p.state != "done":
                continue
            if p.status != "ok":
                violation(res, "submitter-error", sig, f"{p.name}: {p.result.get('type')}: {p.result.get('msg', '')[:600]}")
            elif p.result != {"out": exp}:
                violation(res, "wrong-output", sig, f"{p.name} returned {p.result}, expected {exp}")
        if scen == "preexisting":
            sim.probe("cache_hit_by_late_submitter", 0 if enters else 1)
        res["probes"] = dict(sim.probes)
    finally:
        sim.shutdown()
    return res

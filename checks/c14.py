"""C14 — a failing job never stops independent jobs (asynchronous workers)."""

from __future__ import annotations

import json
import os
import re

from checks import wfcommon as wc
from simlib import wfgen
from simlib.driver import blank_result, violation

PROP = "C14"
LEVEL = "exploration"
ENGINE = "simloop"
RULE = (
    "case = (generated workflow w, 2-6 nodes, some split/nested/duplicated) x (fault plan: a Chooser-picked non-empty "
    "subset of 1-3 of its jobs raises) x (max_concurrent unlimited or 1-3) x (seeded schedule on the simulated pool incl. worker/polling-loop "
    "interleaving so that a job is observed 'running' before it fails).  Non-trivial = at least one job failed, at "
    "least one job was required to run although another failed, and >= 2 workers were used; distinct = distinct "
    "step/event digest."
)
COMPONENTS = {
    "real": ["Submitter.expand_workflow_async (error collection)", "NodeExecution.update_status/get_runnable_tasks", "Job.done / Job.run except path / record_error", "WorkflowOutputs._from_job", "ConcurrentFuturesWorker", "concurrent.futures _ExceptionWithTraceback remote-traceback format"],
    "stub": ["selector event loop -> SimLoop", "ProcessPoolExecutor -> SimPool of lockstep actors", "OS scheduler -> seeded controller"],
}
ASSUMPTIONS = [
    "'depends on' is read in both ways: jobs that are node-level but not data-level dependent on a failure are left unconstrained",
    "the submission of a workflow with a failing job must raise (raise_errors is False for the cf worker, but Task.__call__ raises on an errored result)",
]
PROBES = ["limited_concurrency", "job_seen_running", "running_to_errored", "bodies_overlapped", "failed_while_sibling_running", "multi_failure", "nested_failure"]
NWF = {"quick": 60, "thorough": 900}
NSCHED = {"quick": 5, "thorough": 12}


def plan(tier, seed):
    return [{"id": f"w{w}s{s}", "w": w, "s": s} for w in range(NWF.get(tier, 60)) for s in range(NSCHED.get(tier, 5))]


def run_case(case, ch, workdir):
    res = blank_result()
    seed = int(os.environ.get("VERIF_SEED", "0") or 0)
    spec, _ = wc.spec_for(seed, 2000 + case["w"], dups=False)
    desc = wfgen.describe(spec)
    rstat, rval, revents = wc.reference_run(spec, os.path.join(workdir, "refcache"))
    renters, rorder, rprod = wc.exec_summary(revents)
    res["sample"] = {"workflow": desc, "reference": rstat, "jobs": len(renters)}
    if rstat != "ok" or len(renters) < 2:
        res["digest"] = "rejected"
        return res
    keys = sorted(renters)
    nfail = ch.pick([1, 1, 1, 2, 3], "nfail")
    failed = set()
    for _ in range(nfail):
        failed.add(keys[ch.choose(len(keys), "fail-which")])
    plan_path = os.path.join(workdir, "plan.json")
    with open(plan_path, "w") as f:
        json.dump({k: "raise" for k in failed}, f)
    # classification from the fault-free reference
    failed_tokens = [r for k in failed for r in rprod[k]]

    def data_dep(key):
        tail = key.split("|", 1)[1]
        return any(t in tail for t in failed_tokens)

    failed_eff = {k for k in failed if not data_dep(k)}  # failures that can actually happen
    failed_labels = {wc.node_of_key(k) for k in failed_eff}
    failed_tops = set()
    for lab in failed_labels:
        failed_tops.add(wc.top_node(lab))
    down = wfgen.downstream(spec, failed_tops)
    must_run, must_not = set(), set()
    for k in keys:
        if k in failed:
            continue
        lab = wc.node_of_key(k)
        top = wc.top_node(lab)
        if data_dep(k):
            must_not.add(k)
        elif top not in down:
            must_run.add(k)
        elif lab in failed_labels and top not in wfgen.downstream(spec, failed_tops - {top}):
            # a sibling state of a failing job - unless the whole node is downstream of
            # ANOTHER failing node: pydra resolves dependencies between nodes, not between
            # states (a node starts once all its predecessor nodes are done), so there the
            # sibling may legitimately never start
            must_run.add(k)
    prof = wc.gen_profile(ch)
    prof["hold_body"] = ch.pick([0, 2, 2, 3], "hold")
    mc = ch.pick([None, None, 1, 2, 3], "max_concurrent")
    env, status, val = wc.sim_run(ch, workdir, spec, prof, salt=case["id"], plan_path=plan_path, max_concurrent=mc)
    try:
        sim = env.sim
        enters, order, prod = wc.exec_summary(sim.events)
        exits = {k for kind, k in order if kind == "exit"}
        fails = {k for kind, k in order if kind == "fail"}
        res["steps"] = sim.steps
        res["sim_s"] = sim.now - 1_700_000_000.0
        res["digest"] = sim.digest()
        res["sample"].update({"failing": sorted(failed), "must_run": len(must_run), "must_not_run": len(must_not), "n_procs": prof["n_procs"], "max_concurrent": mc, "status": status})
        sim.fault("planned_job_failure", len(fails))
        if wc.overlap_stats(order) > 1:
            sim.probe("bodies_overlapped")
        if len(fails) > 1:
            sim.probe("multi_failure")
        if mc is not None:
            sim.probe("limited_concurrency")
        if any("i" in wc.node_of_key(k) for k in fails):
            sim.probe("nested_failure")
        cur = set()
        for kind, k in order:
            if kind == "enter":
                cur.add(k)
            else:
                cur.discard(k)
                if kind == "fail" and cur:
                    sim.probe("failed_while_sibling_running")
        res["nontrivial"] = bool(fails) and bool(must_run) and env.pool.nworkers >= 2
        sig = "nested-failure" if any("i" in wc.node_of_key(k) for k in failed) else "flat"
        if status == "hang":
            violation(res, "no-termination", sig, f"{val} (workflow: {desc}; failing {sorted(failed)})")
        elif status == "ok":
            if failed_eff:
                violation(res, "failure-not-reported", sig, f"submission returned outputs {str(val)[:200]} although {sorted(failed_eff)} failed (workflow: {desc})")
        else:
            text = val.get("msg", "") + "\n" + "\n".join(val.get("notes", []))
            # (a) independent jobs were executed and cached
            for k in sorted(must_run):
                if k not in exits:
                    violation(res, "independent-job-not-run", sig, f"{k[:100]} is independent of the failed job(s) {sorted(failed_eff)} but was never executed (workflow: {desc}); order={[(a, b[:40]) for a, b in order]}; error: {text[: int(os.environ.get("VERIF_DETAIL_MAX", "300"))]}")
            # (b) consumers of a failed job never ran
            for k in sorted(must_not):
                if k in enters:
                    violation(res, "dependent-job-ran", sig, f"{k[:100]} consumes a failed job's output but was executed (workflow: {desc})")
            # (c) the error names every failed job
            for lab in sorted(failed_labels):
                if lab not in {wc.node_of_key(k) for k in fails}:
                    continue
                names = wc.names_of_label(spec, lab)
                n_failed_here = len({k for k in fails if wc.node_of_key(k) == lab})
                found = set()
                for nm in names:
                    for i, m in enumerate(re.finditer(r"Job '" + re.escape(nm) + r"(\(\d+\))?'", text)):
                        # jobs inside the states of a nested workflow all carry the same name:
                        # there every mention (one per failed enclosing workflow job) counts
                        found.add((m.group(0), i) if "i" in lab else m.group(0))
                if len(found) < min(n_failed_here, 1):
                    violation(res, "failed-job-not-named", sig, f"error text does not name failed job {lab}: {text[:600]} (workflow: {desc})")
                elif len(found) < n_failed_here:
                    violation(res, "failed-job-not-named", sig, f"{n_failed_here} states of {lab} failed but the error names only {sorted(found)}: {text[:600]} (workflow: {desc})")
            if not fails and failed_eff:
                violation(res, "harness-fault-not-fired", sig, f"planned failures {sorted(failed_eff)} never fired; error: {text[:300]}")
        res["faults"] = dict(sim.faults)
        res["probes"] = dict(sim.probes)
    finally:
        env.close()
    return res

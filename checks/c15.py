"""C15 — jobs start only after the jobs they consume have succeeded; each job exactly once."""

from __future__ import annotations

import os

from checks import wfcommon as wc
from simlib import wfgen
from simlib.driver import blank_result, violation

PROP = "C15"
LEVEL = "exploration"
ENGINE = "simloop"
RULE = (
    "case = (generated workflow w: 2-6 nodes, chains/fan-in/fan-out/diamonds, splits, combines, nested workflow, "
    "duplicate-identity nodes) x (seeded schedule: pool size 1-8, max_concurrent unlimited or 1-3, worker step bursts, controller-line interleaving, "
    "delayed future delivery, timers firing early); reference = same workflow under the sequential debug worker. "
    "Non-trivial = the workflow has >= 3 jobs and the schedule interleaved workers with the polling loop (>= 2 "
    "worker processes alive at once or a job observed 'running'); distinct = distinct SHA-256 of the event/step order."
)
COMPONENTS = {
    "real": ["Submitter.expand_workflow_async/expand_workflow", "NodeExecution", "get_runnable_tasks", "ConcurrentFuturesWorker.run + uncloudpickle_and_run", "Job.run/run_async", "PydraFileLock", "Workflow.construct/State", "cloudpickle of every job", "asyncio Task/Future/wait"],
    "stub": ["selector event loop -> SimLoop (virtual time)", "ProcessPoolExecutor -> SimPool of lockstep actors", "OS scheduler -> seeded controller"],
}
ASSUMPTIONS = [
    "asyncio's FIFO order of ready callbacks is kept (it is an asyncio guarantee)",
    "token containment identifies the producers a job consumed (tokens are unique per job by construction)",
]
PROBES = ["bodies_overlapped", "job_seen_running", "futured_dedup", "nested_wf", "split_jobs", "dup_nested_wf", "cross_level_dup", "pydrafilelock_waited"]
NWF = {"quick": 60, "thorough": 900}
NSCHED = {"quick": 5, "thorough": 12}


def plan(tier, seed):
    out = []
    for w in range(NWF.get(tier, 60)):
        for s in range(NSCHED.get(tier, 5)):
            out.append({"id": f"w{w}s{s}", "w": w, "s": s})
    return out


def check_order(res, sig, order, produces, label):
    seen_exit = set()
    for kind, key in order:
        if kind == "enter":
            for pk in wc.consumed(key, produces):
                if pk not in seen_exit:
                    violation(res, "started-before-upstream-finished", sig, f"[{label}] job {key[:120]} entered its body before producer {pk[:120]} had exited")
        elif kind == "exit":
            seen_exit.add(key)


def run_case(case, ch, workdir):
    res = blank_result()
    seed = int(os.environ.get("VERIF_SEED", "0") or 0)
    spec, sch = wc.spec_for(seed, case["w"])
    if case["w"] % 6 == 5:
        spec = wfgen.add_dup_nested(sch, spec)
    if case["w"] % 6 == 4:
        spec = wfgen.add_cross_level_dup(sch, spec)
        res["probes"]["cross_level_dup"] = 1
    desc = wfgen.describe(spec)
    rstat, rval, revents = wc.reference_run(spec, os.path.join(workdir, "refcache"))
    renters, rorder, rprod = wc.exec_summary(revents)
    res["sample"] = {"workflow": desc, "reference": rstat, "jobs": len(renters)}
    sig = "gen"
    if rstat != "ok":
        # rejected identically in every configuration: not counted as non-trivial
        res["digest"] = "rejected"
        res["sample"]["rejected"] = rval["type"]
        return res
    # the sequential loop itself (one fixed schedule per workflow)
    check_order(res, sig, rorder, rprod, "debug worker")
    for k, n in renters.items():
        if n != 1:
            violation(res, "exec-count", sig, f"[debug worker] {k[:120]} executed {n} times")
    prof = wc.gen_profile(ch)
    mc = ch.pick([None, None, None, 1, 2, 3], "max_concurrent")
    env, status, val = wc.sim_run(ch, workdir, spec, prof, salt=case["id"], max_concurrent=mc)
    try:
        sim = env.sim
        enters, order, prod = wc.exec_summary(sim.events)
        res["steps"] = sim.steps
        res["sim_s"] = sim.now - 1_700_000_000.0
        res["digest"] = sim.digest()
        res["sample"].update({"n_procs": prof["n_procs"], "fine": prof["fine"], "max_concurrent": mc, "status": status})
        mx = wc.overlap_stats(order)
        if mx > 1:
            sim.probe("bodies_overlapped")
        if any(nd["kind"] == "wf" for nd in spec["nodes"]):
            sim.probe("nested_wf")
        if any(nd.get("split") for nd in spec["nodes"]):
            sim.probe("split_jobs")
        if len({nd["label"] for nd in spec["nodes"]}) < len(spec["nodes"]):
            sim.probe("futured_dedup")
        wfl = [nd["label"] for nd in spec["nodes"] if nd["kind"] == "wf"]
        if len(set(wfl)) < len(wfl):
            sim.probe("dup_nested_wf")
        res["nontrivial"] = len(renters) >= 3 and (mx > 1 or env.pool.nworkers >= 2)
        if status == "hang":
            violation(res, "no-termination", sig, f"simulated submission did not terminate: {val}")
        elif status != "ok":
            violation(res, "unexpected-error", sig, f"{val.get('type')}: {val.get('msg', '')[:500]} (workflow: {desc})")
        else:
            check_order(res, sig, order, prod, "cf worker")
            for k in renters:
                n = enters.get(k, 0)
                if n != 1:
                    violation(res, "exec-count", sig, f"[cf worker] {k[:120]} executed {n} times, expected exactly once (workflow: {desc})")
            for k in enters:
                if k not in renters:
                    violation(res, "exec-count", sig, f"[cf worker] unexpected job {k[:120]} executed")
        res["faults"] = dict(sim.faults)
        keep = dict(res["probes"])
        res["probes"] = dict(sim.probes)
        res["probes"].update(keep)
    finally:
        env.close()
    return res

"""C16 — the max_concurrent limit is never exceeded."""

from __future__ import annotations

import os

from checks import wfcommon as wc
from simlib import wfgen
from simlib.chooser import Chooser, mix_seed
from simlib.driver import blank_result, violation

PROP = "C16"
LEVEL = "exploration"
ENGINE = "simloop"
RULE = (
    "case = (wide generated workflow: 3-10 independent/chained jobs from split nodes over 2-6 elements and parallel "
    "nodes) x limit k in 1..jobs x seeded schedule with a pool at least as large as the job count (so the pool never "
    "masks the limit) and a bias to keep workers inside their bodies; oracle: at every event the number of bodies "
    "between enter and exit, and the number of jobs being run by pool processes, is <= k.  Non-trivial = k < number of jobs that could run at once and >= 2 bodies overlapped "
    "or were dispatched together; distinct = distinct step/event digest."
)
COMPONENTS = {
    "real": ["Submitter.get_runnable_tasks (max_concurrent truncation)", "NodeExecution.update_status", "expand_workflow_async", "ConcurrentFuturesWorker", "Job.run"],
    "stub": ["selector event loop -> SimLoop", "ProcessPoolExecutor -> SimPool of lockstep actors (size >= job count)", "OS scheduler -> seeded controller"],
}
ASSUMPTIONS = ["'executing' is judged at two levels: inside the task body (between body-enter and body-exit), and being run by a worker process (from the moment a pool process picks the job up until it has finished it); jobs merely waiting in the pool's queue do not count"]
PROBES = ["bodies_overlapped", "job_seen_running", "limit_reached"]  # "dispatched_over_limit" is counted too: it is the violation itself, zero on a correct tree
N = {"quick": 300, "thorough": 8000}


def plan(tier, seed):
    return [{"id": f"c{i}", "i": i} for i in range(N.get(tier, 300))]


def two_level_spec(ch):
    """two first-level nodes feeding two split second-level nodes: the node that comes
    first in the sorted order may become runnable *after* the later one was submitted"""
    nodes = [
        {"name": "n0", "label": "n0", "kind": "tok", "ins": {"a": ["c", 0]}, "split": None, "combine": None},
        {"name": "n1", "label": "n1", "kind": "tok", "ins": {"a": ["c", 1]}, "split": None, "combine": None},
        {"name": "m0", "label": "m0", "kind": "tok", "ins": {"a": ["xs"], "b": ["n", "n0"]}, "split": "a", "combine": None},
        {"name": "m1", "label": "m1", "kind": "tok", "ins": {"a": ["xs"], "b": ["n", "n1"]}, "split": "a", "combine": None},
    ]
    return {"nodes": nodes, "out": "m1", "late": []}


def wide_spec(ch):
    """split nodes and parallel nodes: many jobs runnable at once"""
    if ch.choose(3, "shape") == 0:
        return two_level_spec(ch)
    nodes = []
    n_par = ch.randint(1, 4, "n-par")
    for i in range(n_par):
        nd = {"name": f"n{i}", "label": f"n{i}", "kind": "tok", "ins": {"a": ["c", i]}, "split": None, "combine": None}
        if ch.choose(2, "split"):
            nd["ins"] = {"a": ["xs"], "b": ["c", i]}
            nd["split"] = "a"
            if ch.choose(2, "comb"):
                nd["combine"] = "a"
        nodes.append(nd)
    # optional second layer chained on the first
    for j in range(ch.randint(0, 2, "n-second")):
        src = nodes[ch.choose(n_par, "src")]["name"]
        nodes.append({"name": f"m{j}", "label": f"m{j}", "kind": "tok", "ins": {"a": ["n", src]}, "split": None, "combine": None})
    return {"nodes": nodes, "out": nodes[-1]["name"], "late": []}


def run_case(case, ch, workdir):
    res = blank_result()
    seed = int(os.environ.get("VERIF_SEED", "0") or 0)
    sch = Chooser(seed=mix_seed(seed, "c16spec", case["i"] // 4))
    spec = wide_spec(sch)
    xs = list(range(sch.randint(2, 6, "xs-len")))
    desc = wfgen.describe(spec)
    rstat, rval, revents = wc.reference_run(spec, os.path.join(workdir, "refcache"), xs=xs)
    renters, _, _ = wc.exec_summary(revents)
    njobs = len(renters)
    res["sample"] = {"workflow": desc, "xs": len(xs), "jobs": njobs, "reference": rstat}
    if rstat != "ok" or njobs < 2:
        res["digest"] = "rejected"
        return res
    k = ch.randint(1, njobs, "k")
    prof = wc.gen_profile(ch)
    prof["n_procs"] = njobs + 1
    prof["hold_body"] = ch.pick([1, 2, 2, 3], "hold")  # keep workers inside bodies
    env, status, val = wc.sim_run(ch, workdir, spec, prof, salt=case["id"], max_concurrent=k, xs=xs)
    try:
        sim = env.sim
        enters, order, prod = wc.exec_summary(sim.events)
        res["steps"] = sim.steps
        res["sim_s"] = sim.now - 1_700_000_000.0
        res["digest"] = sim.digest()
        res["sample"].update({"k": k, "status": status})
        cur, mx, at = 0, 0, None
        for kind, key in order:
            if kind == "enter":
                cur += 1
                if cur > mx:
                    mx, at = cur, key
            else:
                cur -= 1
        res["sample"]["max_in_body"] = mx
        if mx > 1:
            sim.probe("bodies_overlapped")
        if mx >= k:
            sim.probe("limit_reached")
        if env.pool.max_running > k:
            sim.probe("dispatched_over_limit")
        res["nontrivial"] = k < njobs and mx >= 2
        sig = "wide"
        if status == "hang":
            violation(res, "no-termination", sig, f"{val} (workflow: {desc}, k={k})")
        elif status != "ok":
            violation(res, "unexpected-error", sig, f"{val.get('type')}: {val.get('msg', '')[:400]} (workflow: {desc}, k={k})")
        if env.pool.max_running > k:
            violation(res, "limit-exceeded-dispatch", sig, f"{env.pool.max_running} jobs were being run by worker processes at once with max_concurrent={k} (workflow: {desc}, xs={len(xs)}, jobs={njobs})")
        if mx > k:
            violation(res, "limit-exceeded", sig, f"{mx} task bodies executing at once with max_concurrent={k} (workflow: {desc}, xs={len(xs)}, jobs={njobs}); peak reached when {at[:80]} entered")
        res["faults"] = dict(sim.faults)
        res["probes"] = dict(sim.probes)
    finally:
        env.close()
    return res

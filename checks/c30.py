"""C30 — workflow construction caching and repeated runs are transparent."""

from __future__ import annotations

import hashlib
import os

import attrs

from checks import histcommon as hc
from checks import wfcommon as wc
from simlib import lockstep, wfgen, workload
from simlib.chooser import Chooser, mix_seed
from simlib.driver import blank_result, violation

PROP = "C30"
LEVEL = "exploration"
ENGINE = "histsim"
RULE = (
    "case = Chooser-generated history of 3-7 operations in ONE process over 2-3 generated workflow definitions and 3 "
    "value sets: construct(W(values), lazy subset of {x, xs}) via Workflow.construct, or run(W(values)) into a fresh "
    "cache root (debug worker or simulated pool), or reuse: ONE task object kept per definition is given other input values (attribute assignment, attrs.evolve, copy + assignment) and is constructed (task.construct()) or run again.  Reference for every operation = the same single operation executed "
    "in a pristine process (a lockstep actor whose Workflow._constructed_cache is empty).  Oracle: graph description "
    "(node names, task types, per-node inputs with lazy fields named by origin, splitter/combiner, workflow inputs and "
    "outputs) and run outputs equal the reference's.  No fault space: the dimension searched is the history (process-"
    "global construction cache incl. its superset-of-lazy path) and the worker schedule of run operations.  Non-trivial "
    "= the history hits the construction cache (same definition constructed/run at least twice); distinct = history digest."
)
COMPONENTS = {
    "real": ["Workflow.construct (_constructed_cache, exact and superset-of-lazy hits, deepcopy)", "WorkflowTask.construct memo", "Workflow._create_graph / execution_graph (state mutation)", "Node/State", "Submitter + DebugWorker / cf worker on SimPool"],
    "stub": ["pristine process -> persistent actor with cleared construction cache", "process pool + event loop -> simloop (for 'cf' runs)"],
}
ASSUMPTIONS = ["history search against a model with no fault space (stated plainly in DESIGN.md)"]
PROBES = ["reuse_assign", "reuse_evolve", "reuse_copy", "exact_cache_hit", "superset_lazy_path", "run_after_construct", "run_twice", "cf_run"]
N = {"quick": 300, "thorough": 6000}
JOBS = 6
VALUES = [(1, [1, 2]), (2, [3]), (3, [1, 2])]


def plan(tier, seed):
    return [{"id": f"h{i}", "i": i} for i in range(N.get(tier, 300))]


def _desc(v, wf=None):
    from pydra.engine.lazy import LazyInField, LazyOutField

    if isinstance(v, LazyInField):
        # a reference to a workflow input that has a concrete value is equivalent to
        # that value (the superset-of-lazy cache path keeps the reference)
        if wf is not None:
            cur = getattr(wf.inputs, v._field, attrs.NOTHING)
            if not isinstance(cur, (LazyInField, LazyOutField)) and cur is not attrs.NOTHING:
                return repr(wc.plain(cur))
        return f"in:{v._field}"
    if isinstance(v, LazyOutField):
        return f"out:{v._node.name}.{v._field}"
    if v is attrs.NOTHING:
        return "NOTHING"
    if callable(v) and hasattr(v, "__name__"):
        return f"fn:{v.__name__}"
    return repr(wc.plain(v))


def graph_desc(wf):
    from pydra.utils.general import attrs_values

    nodes = []
    for node in wf.nodes:
        ins = {k: _desc(v, wf) for k, v in sorted(attrs_values(node._task).items())}
        st = node.state
        nodes.append(
            {
                "name": node.name,
                "task": type(node._task).__name__,
                "inputs": ins,
                "splitter": repr(st.splitter) if st else None,
                "combiner": repr(sorted(st.combiner)) if st and st.combiner else None,
            }
        )
    return {
        "nodes": nodes,
        "inputs": {k: _desc(v) for k, v in sorted(attrs_values(wf.inputs).items()) if k != "constructor"},
        "outputs": {k: _desc(v) for k, v in sorted(attrs_values(wf.outputs).items()) if not k.startswith("_")},
    }


def do_construct(spec, x, xs, lazy):
    from pydra.engine.workflow import Workflow

    task = workload.GenWf(spec=spec, x=x, xs=xs)
    try:
        wf = Workflow.construct(task, lazy=lazy)
        return "ok", graph_desc(wf)
    except Exception as e:  # noqa: BLE001
        return "exc", f"{type(e).__name__}: {str(e)[:200]}"


def do_run_debug(spec, x, xs, cache):
    try:
        out = workload.GenWf(spec=spec, x=x, xs=xs)(cache_root=cache, worker="debug")
        return "ok", wc.plain(out.out)
    except Exception as e:  # noqa: BLE001
        return "exc", f"{type(e).__name__}: {str(e)[:200]}"


def derive(live, how, x, xs):
    """a task object with the given values obtained from an existing (already constructed or
    run) task object: attribute assignment, attrs.evolve, or copy + assignment"""
    import copy

    if how == "assign":
        t = live
        t.x = x
        t.xs = xs
    elif how == "evolve":
        t = attrs.evolve(live, x=x, xs=xs)
    else:
        t = copy.copy(live)
        t.x = x
        t.xs = xs
    return t


def do_construct_obj(task):
    try:
        return "ok", graph_desc(task.construct())
    except Exception as e:  # noqa: BLE001
        return "exc", f"{type(e).__name__}: {str(e)[:200]}"


def do_construct_fresh(spec, x, xs):
    return do_construct_obj(workload.GenWf(spec=spec, x=x, xs=xs))


def _reference(sim_holder, fn, args):
    """execute fn(*args) in a pristine actor process"""
    sim = lockstep.Sim(Chooser(seed=1), "/dev/shm/pv", trace_files={}, chunk_writes=False)
    try:
        p = sim.spawn(f"ref{sim_holder[0]}", fn, args)
        sim_holder[0] += 1
        while p.state in ("ready", "sleeping"):
            sim.step(p, 4096)
            if p.state == "sleeping":
                sim.jump_clock()
        if p.status != "ok":
            return "exc", f"actor: {p.result}"
        return p.result
    finally:
        sim.shutdown()


def run_case(case, ch, workdir):
    res = blank_result()
    probes = res["probes"]

    def probe(n):
        probes[n] = probes.get(n, 0) + 1

    seed = int(os.environ.get("VERIF_SEED", "0") or 0)
    ndefs = ch.randint(1, 3, "ndefs")
    specs = []
    for d in range(ndefs):
        sch = Chooser(seed=mix_seed(seed, "c30spec", case["i"] // 3, d))
        specs.append(wfgen.gen_spec(sch, max_nodes=4, nested=False))
    history = []
    hsh = hashlib.sha256()
    seen = {}
    live = {}
    holder = [0]
    try:
        for op in range(ch.randint(3, 7, "nops")):
            d = ch.choose(ndefs, "def")
            x, xs = VALUES[ch.choose(len(VALUES), "vals")]
            spec = specs[d]
            kind = ch.pick(["construct", "construct", "run", "reuse"], "kind")
            if kind == "reuse":
                # the user keeps ONE task object per definition and gives it other input
                # values between constructions / runs
                how = ch.pick(["assign", "evolve", "copy"], "how")
                what = ch.pick(["construct", "run"], "what")
                if d not in live:
                    live[d] = workload.GenWf(spec=spec, x=VALUES[0][0], xs=VALUES[0][1])
                    try:
                        live[d].construct()
                    except Exception:  # noqa: BLE001 - a definition pydra rejects; the operations below compare that too
                        pass
                task = derive(live[d], how, x, xs)
                if how != "copy":
                    live[d] = task
                kind = f"reuse-{what}"
                label = f"{how}(def{d},x={x},xs={xs}).{what}"
                probe("reuse_" + how)
                if what == "construct":
                    st, val = do_construct_obj(task)
                    rst, rval = _reference(holder, do_construct_fresh, (spec, x, xs))
                else:
                    try:
                        out = task(cache_root=os.path.join(workdir, f"cache{op}"), worker="debug")
                        st, val = "ok", wc.plain(out.out)
                    except Exception as e:  # noqa: BLE001
                        st, val = "exc", f"{type(e).__name__}: {str(e)[:200]}"
                    rst, rval = _reference(holder, do_run_debug, (spec, x, xs, os.path.join(workdir, f"refcache{op}")))
                seen[(d, "u", op)] = True
            elif kind == "construct":
                lazy = ch.subset(["x", "xs"], "lazy")
                st, val = do_construct(spec, x, xs, lazy)
                rst, rval = _reference(holder, do_construct, (spec, x, xs, lazy))
                label = f"construct(def{d},x={x},xs={xs},lazy={lazy})"
                key = (d, "c")
                if seen.get((d, "c", x, tuple(xs), tuple(lazy))):
                    probe("exact_cache_hit")
                if any(k[:2] == (d, "c") and set(k[4]) > set(lazy) for k in seen):
                    probe("superset_lazy_path")
                seen[(d, "c", x, tuple(xs), tuple(lazy))] = True
            else:
                worker = "cf" if ch.chance(1, 5, "cf") else "debug"
                cache = os.path.join(workdir, f"cache{op}")
                if worker == "debug":
                    st, val = do_run_debug(spec, x, xs, cache)
                else:
                    s2, v2, _ev, _ex = hc.submit(ch, workdir, workload.GenWf(spec=spec, x=x, xs=xs), cache, worker="cf", salt=f"{case['id']}-{op}")
                    st, val = (s2, v2.get("out") if s2 == "ok" else f"{v2.get('type')}: {v2.get('msg', '')[:200]}" if isinstance(v2, dict) else v2)
                    probe("cf_run")
                rst, rval = _reference(holder, do_run_debug, (spec, x, xs, os.path.join(workdir, f"refcache{op}")))
                label = f"run(def{d},x={x},xs={xs},{worker})"
                if any(k[0] == d and k[1] == "c" for k in seen):
                    probe("run_after_construct")
                if seen.get((d, "r", x, tuple(xs))):
                    probe("run_twice")
                seen[(d, "r", x, tuple(xs))] = True
            history.append(f"{label}:{st}")
            hsh.update(repr((label, st)).encode())
            if any(k[0] == d for k in list(seen)[:-1]) or len([h for h in history if f"def{d}," in h]) > 1:
                res["nontrivial"] = True
            ctx = f"op {op} {label}; history={history}; workflow={wfgen.describe(spec)}"
            sig = kind
            if st != rst:
                violation(res, "status-differs", sig, f"in-history: {st} {str(val)[:200]}; pristine process: {rst} {str(rval)[:200]}; {ctx}")
            elif st == "ok" and val != rval:
                if kind.endswith("construct"):
                    diff = _first_diff(val, rval)
                    violation(res, "graph-differs", sig, f"{diff}; {ctx}")
                else:
                    violation(res, "outputs-differ", sig, f"in-history {str(val)[:300]} vs pristine {str(rval)[:300]}; {ctx}")
    finally:
        lockstep.reset_state()
    res["digest"] = hsh.hexdigest()[:20]
    res["sample"] = {"history": history, "definitions": [wfgen.describe(s) for s in specs]}
    return res


def _first_diff(a, b):
    for k in ("inputs", "outputs"):
        if a[k] != b[k]:
            return f"workflow {k}: in-history {a[k]} vs pristine {b[k]}"
    if [n["name"] for n in a["nodes"]] != [n["name"] for n in b["nodes"]]:
        return f"node lists differ: {[n['name'] for n in a['nodes']]} vs {[n['name'] for n in b['nodes']]}"
    for na, nb in zip(a["nodes"], b["nodes"]):
        if na != nb:
            return f"node {na['name']}: in-history {na} vs pristine {nb}"
    return "?"

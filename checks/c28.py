"""C28 — batch-scheduler workers follow the scheduler's verdict (fake SLURM / SGE)."""

from __future__ import annotations

import json
import os
import pickle
import re

from checks import histcommon as hc
from simlib import cluster, lockstep, simloop, workload
from simlib import rt as _rt
from simlib.driver import blank_result, violation

PROP = "C28"
LEVEL = "exploration"
ENGINE = "simloop+cluster"
RULE = (
    "case = (worker slurm|sge) x (user scheduler-argument string built from none / -N1 / -J x / --job-name=x / -o / "
    "--output= / -e / --error= / --no-requeue and combinations; SGE: -N, -o, -e, -pe smp n, -l mem_free) x (poll_delay) x "
    "(per job a Chooser-generated scheduler response script: PENDING for 0-40 s, RUNNING, then COMPLETED | FAILED (the "
    "real payload raises, non-zero exit, traceback in the error file) | CANCELLED / TIMEOUT / PREEMPTED / NODE_FAIL / "
    "evicted (the payload process is SIGKILLed at a chosen point of the real load_and_run, leaving lock and info file) "
    "followed by further lives after a requeue; accounting answers lag by 0-2 polls).  Tasks: plain python task and a "
    "two-node workflow.  Non-trivial = at least one scheduler verdict other than a first-try COMPLETED, or user options "
    "present; distinct = digest of (arguments, response script, schedule)."
)
COMPONENTS = {
    "real": ["SlurmWorker.run/_poll_job/_verify_exit_code/_prepare_runscripts", "SgeWorker.run/submit_array_job/_rerun_job_array/_verify_exit_code", "read_and_display_async/read_stream_and_display", "load_and_run (payload extracted from the generated batch script, POSIX shell word splitting)", "Job.run", "Submitter", "asyncio streams"],
    "stub": ["sbatch/squeue/sacct/scontrol and qsub/qstat/qacct CLIs + the scheduler daemons -> FakeCluster (my reading of their output formats as parsed by the workers' regexes)", "compute nodes -> lockstep actors", "event loop -> SimLoop (poll delays, collect_jobs_delay=30, sleep(10) cost microseconds)", "random.uniform (SGE) -> Chooser"],
}
ASSUMPTIONS = [
    "the fake CLIs validate arguments like the real ones for the options used here (unknown option, missing value, script last)",
    "a scheduler that never produces accounting is not judged; finite accounting lag is",
    "a job killed by the scheduler after it had stored its complete result may be reported complete (its correct result is returned); judged is only a kill that leaves no complete result",
]
PROBES = ["requeue_issued", "lock_removed_before_requeue", "lock_left_at_requeue", "accounting_lag_seen", "user_jobname", "user_output", "user_error", "no_requeue", "workflow_via_scheduler", "payload_killed"]
N = {"quick": 220, "thorough": 5000}
JOBS = 4


def plan(tier, seed):
    n = N.get(tier, 220)
    return [{"id": f"c{i}", "i": i, "worker": "slurm" if i % 3 else "sge"} for i in range(n)]


def _slurm_args(ch, workdir):
    parts = []
    user = {}
    if ch.choose(3, "N1") == 0:
        parts.append("-N1")
    k = ch.choose(4, "jobname")
    if k == 1:
        parts.append("-J myjob")
        user["job-name"] = "myjob"
    elif k == 2:
        parts.append("--job-name=myjob2")
        user["job-name"] = "myjob2"
    k = ch.choose(4, "out")
    if k == 1:
        user["output"] = os.path.join(workdir, "user-%j.out")
        parts.append(f"-o {user['output']}")
    elif k == 2:
        user["output"] = os.path.join(workdir, "user2-%j.out")
        parts.append(f"--output={user['output']}")
    k = ch.choose(4, "err")
    if k == 1:
        user["error"] = os.path.join(workdir, "user-%j.err")
        parts.append(f"-e {user['error']}")
    elif k == 2:
        user["error"] = os.path.join(workdir, "user2-%j.err")
        parts.append(f"--error={user['error']}")
    if ch.choose(6, "noreq") == 0:
        parts.append("--no-requeue")
        user["no-requeue"] = True
    parts = ch.shuffle(parts, "order")
    return " ".join(parts), user


def _sge_args(ch, workdir):
    parts = []
    user = {}
    if ch.choose(3, "N") == 0:
        parts.append("-N myjob")
        user["-N"] = "myjob"
    k = ch.choose(3, "o")
    if k == 1:
        user["-o"] = os.path.join(workdir, "user-sge.out")
        parts.append(f"-o {user['-o']}")
    k = ch.choose(3, "e")
    if k == 1:
        user["-e"] = os.path.join(workdir, "user-sge.err")
        parts.append(f"-e {user['-e']}")
    if ch.choose(4, "smp") == 0:
        parts.append("-pe smp 2")
    if ch.choose(5, "mem") == 0:
        parts.append("-l mem_free=2G")
    return " ".join(ch.shuffle(parts, "order")), user


def run_case(case, ch, workdir):
    res = blank_result()
    probes = res["probes"]

    def probe(n, k=1):
        probes[n] = probes.get(n, 0) + k

    wk = case["worker"]
    cache = os.path.join(workdir, "cache")
    os.makedirs(cache)
    plan_path = os.path.join(workdir, "plan.json")
    # verdict script for the (first) job
    script = ch.pick(
        [["COMPLETED"], ["COMPLETED"], ["FAILED"], ["CANCELLED", "COMPLETED"], ["TIMEOUT", "COMPLETED"], ["PREEMPTED", "COMPLETED"],
         ["TIMEOUT", "PREEMPTED", "COMPLETED"], ["CANCELLED", "FAILED"], ["NODE_FAIL"]],
        "script",
    )
    if wk == "sge":
        script = ["EVICTED" if v in ("CANCELLED", "TIMEOUT", "PREEMPTED", "NODE_FAIL") else v for v in script]
        if script[-1] == "EVICTED":
            script.append("COMPLETED")
    use_wf = ch.chance(1, 4, "wf")
    fails = script[-1] == "FAILED"
    if use_wf:
        task = workload.WfPlanned(x=1, tag="always" if fails else "ok")
        key = workload._key("Planned", 3, "always")
        expected = {"out": (1 + 2) * 3 + 5}
    else:
        task = workload.Planned(x=4, tag="always" if fails else "ok")
        key = workload._key("Planned", 4, "always")
        expected = {"out": 12}
    with open(plan_path, "w") as f:
        json.dump({key: "raise"} if fails else {}, f)
    if wk == "slurm":
        argstr, user = _slurm_args(ch, workdir)
        kwargs = {"sbatch_args": argstr, "poll_delay": ch.pick([1, 1, 5], "poll")}
    else:
        argstr, user = _sge_args(ch, workdir)
        kwargs = {"qsub_args": argstr, "default_qsub_args": argstr, "poll_delay": ch.pick([1, 5], "poll"), "poll_for_result_file": bool(ch.choose(2, "pfr")), "collect_jobs_delay": ch.pick([1, 30], "collect")}
    prof = {"fine": False, "step_workers": True, "burst_lo": ch.pick([0, 0, 2], "burst"), "n_procs": 2, "timer_bias": ch.pick([2, 3, 10], "timer"), "hold_body": 0, "ext_steps_max": 3, "t_limit": 3600.0, "ext_budget": 200_000, "max_steps": 300_000}
    env = simloop.SimEnv(ch, workdir, n_procs=2, fine=False, uuid_salt=case["id"], profile=prof)
    env.cache_root = cache
    env.sim.env = {"VERIF_FAULTPLAN": plan_path}
    fc = cluster.FakeCluster(env, ch, wk)
    env.cluster = fc
    nsub = [0]

    def verdicts(job):
        nsub[0] += 1
        if use_wf and nsub[0] > 1 and not fails:
            return ["COMPLETED"]
        if user.get("no-requeue"):
            return script[:1]
        if wk == "sge":
            # a resubmission is a new qsub: it continues the response script
            k = min(nsub[0] - 1, len(script) - 1)
            return script[k:]
        return script

    fc.verdict_plan = verdicts
    import random as _random

    real_uniform = _random.uniform
    _random.uniform = lambda a, b: a + (b - a) * (ch.choose(5, "uniform") + 1) / 5.0

    def go():
        out = task(cache_root=cache, worker=wk, **kwargs)
        return hc.outputs_plain(out)

    saved = os.environ.get("VERIF_FAULTPLAN")
    os.environ["VERIF_FAULTPLAN"] = plan_path
    try:
        status, val = env.run(go)
    finally:
        _random.uniform = real_uniform
        if saved is None:
            os.environ.pop("VERIF_FAULTPLAN", None)
        else:
            os.environ["VERIF_FAULTPLAN"] = saved
    try:
        sim = env.sim
        res["steps"] = sim.steps
        res["sim_s"] = sim.now - _rt.EPOCH
        res["digest"] = sim.digest()
        jobs = list(fc.jobs.values())
        hist = {str(j.id): j.history + [j.state] for j in jobs}
        res["sample"] = {"worker": wk, "args": argstr, "kwargs": {k: v for k, v in kwargs.items() if k != "sbatch_args" and k != "qsub_args"}, "script": script, "task": "workflow" if use_wf else "plain", "status": status, "jobs": hist, "commands": len(fc.calls)}
        res["faults"] = dict(sim.faults)
        if user:
            for k in user:
                probe({"job-name": "user_jobname", "-N": "user_jobname", "output": "user_output", "-o": "user_output", "error": "user_error", "-e": "user_error", "no-requeue": "no_requeue"}[k])
        if use_wf:
            probe("workflow_via_scheduler")
        if sim.faults.get("scheduler-kill"):
            probe("payload_killed")
        if sim.faults.get("accounting_lag"):
            probe("accounting_lag_seen")
        if fc.requeue_calls or any(len(j.history) > 1 for j in jobs) or len(jobs) > (2 if use_wf else 1):
            probe("requeue_issued")
        res["nontrivial"] = bool(user) or script != ["COMPLETED"]
        sig = wk
        ctx = f"worker={wk} args={argstr!r} script={script} task={'workflow' if use_wf else 'plain'} -> {status}; scheduler jobs={hist}; requeues={fc.requeue_calls}"
        if fc.errors:
            violation(res, "bad-batch-script", sig, f"{fc.errors}; {ctx}")
        if status == "hang":
            violation(res, "no-termination", sig, f"{val}; {ctx}")
            return res
        msg = "" if status == "ok" else val.get("msg", "")
        errtext = "" if status == "ok" else f"{val.get('type')}: {msg[:160]}{' ... ' + msg[-500:] if len(msg) > 160 else ''}"
        cause = "sacct-empty" if "Job information not found" in msg else "user-error-option" if "'NoneType' object has no attribute 'replace'" in msg else None
        if cause:
            sig = f"{wk}/{cause}"
        # ---- argv handed to the scheduler
        for j in jobs:
            if wk == "slurm":
                for opt in ("job-name", "output", "error"):
                    n = len(j.opts.get(opt, []))
                    if n != 1:
                        violation(res, "option-count", sig, f"sbatch received --{opt} {n} times ({j.opts.get(opt)}); {ctx}")
                    elif opt in user and j.opts[opt][0] != user[opt]:
                        violation(res, "user-option-ignored", sig, f"user asked {opt}={user[opt]!r}, sbatch got {j.opts[opt][0]!r}; {ctx}")
            else:
                for opt in ("-N", "-o", "-e"):
                    n = len(j.opts.get(opt, []))
                    if n > 1:
                        violation(res, "option-count", sig, f"qsub received {opt} {n} times ({j.opts.get(opt)}); {ctx}")
                    elif opt in user and (n != 1 or j.opts[opt][0] != user[opt]):
                        violation(res, "user-option-ignored", sig, f"user asked {opt} {user[opt]!r}, qsub got {j.opts.get(opt)}; {ctx}")
        rejected = [c for c in fc.calls if c[0] in ("sbatch", "qsub")]
        if not jobs and rejected:
            violation(res, "submission-rejected", sig, f"the scheduler rejected the generated command line {rejected[0][:12]}: {errtext}; {ctx}")
            return res
        # ---- verdicts
        final = [j.state for j in jobs]
        all_completed = bool(jobs) and all(s == "COMPLETED" for s in final)
        results_ok = _results_ok(cache)
        expected_submissions = 3 if use_wf else 1
        if all_completed and len(jobs) > expected_submissions:
            violation(res, "needless-resubmission", sig, f"{len(jobs)} scheduler jobs were submitted for {expected_submissions} pydra job(s) although the scheduler reported every one of them COMPLETED and none failed, was killed or evicted; {ctx}")
        if all_completed and results_ok:
            if status != "ok":
                violation(res, "completed-reported-failed", sig, f"every scheduler job COMPLETED and the results are loadable, but the submission raised {errtext}; {ctx}")
            elif any(val.get(k) != v for k, v in expected.items()):
                violation(res, "wrong-output", sig, f"returned {val}, expected {expected}; {ctx}")
        elif any(s == "FAILED" for s in final):
            if status == "ok":
                violation(res, "failed-reported-complete", sig, f"the scheduler reported FAILED but the submission returned {val}; {ctx}")
        elif wk == "sge" and status == "ok" and "COMPLETED" in final and results_ok and all(s in ("EVICTED", "COMPLETED", "PENDING", "RUNNING") for s in final):
            # evicted array jobs were resubmitted (a new qsub) and the resubmission completed
            probe("requeue_issued")
            if any(val.get(k) != v for k, v in expected.items()):
                violation(res, "wrong-output", sig, f"returned {val}, expected {expected}; {ctx}")
        elif status == "ok" and results_ok and all(val.get(k) == v for k, v in expected.items()) and any(s in ("CANCELLED", "TIMEOUT", "PREEMPTED", "EVICTED", "NODE_FAIL") for s in final):
            # the scheduler killed the job (or its node died) after it had stored its
            # complete result: the worker returns that (correct) result - nothing is
            # left to requeue
            probe("killed_after_result_complete")
        elif any(s in ("CANCELLED", "TIMEOUT", "PREEMPTED", "EVICTED") for s in final):
            # a killed job that was never brought back
            if user.get("no-requeue"):
                if status == "ok":
                    violation(res, "killed-reported-complete", sig, f"job ended {final} (no requeue requested) but the submission returned {val}; {ctx}")
            else:
                violation(res, "not-requeued", sig, f"job ended {final} and was not requeued/resubmitted (the submission raised {errtext}); {ctx}")
        elif any(s == "NODE_FAIL" for s in final):
            if status == "ok":
                violation(res, "failed-reported-complete", sig, f"NODE_FAIL but the submission returned {val}; {ctx}")
        if status == "exc" and jobs and all_completed and not results_ok:
            pass  # completed without a loadable result: reporting an error is right
        if status == "exc" and not any(s in ("FAILED", "NODE_FAIL", "CANCELLED", "TIMEOUT", "PREEMPTED", "EVICTED") for s in final) and not (all_completed and not results_ok) and not (all_completed and results_ok):
            violation(res, "spurious-failure", sig, f"the scheduler never reported a failure (jobs: {final or 'none submitted'}) but the submission raised {errtext}; {ctx}")
        for j in jobs:
            # (not part of the property as stated: only measured)
            if getattr(j, "lock_left_at_requeue", None):
                probe("lock_left_at_requeue")
            elif j.requeues:
                probe("lock_removed_before_requeue")
    finally:
        env.close()
        lockstep.reset_state()
    return res


def _results_ok(cache):
    ok = False
    for d in os.listdir(cache):
        rp = os.path.join(cache, d, "_result.pklz")
        if os.path.isfile(rp) and (d.startswith("python-") or d.startswith("workflow-")):
            try:
                with open(rp, "rb") as f:
                    r = pickle.load(f)
                if r.errored:
                    return False
                ok = True
            except Exception:
                return False
    return ok

"""Shared machinery of the workflow-schedule checks (C14-C18, part of C36)."""

from __future__ import annotations

import json
import os
import re

from simlib import rt as _rt
from simlib import simloop, wfgen, workload
from simlib.chooser import Chooser, mix_seed

X, XS = 1, [1, 2]


def spec_for(seed, w, **kw):
    sch = Chooser(seed=mix_seed(seed, "wfgen", w))
    return wfgen.gen_spec(sch, **kw), sch


def plain(v):
    """outputs -> comparable plain structure"""
    if isinstance(v, (list, tuple)):
        return [plain(i) for i in v]
    return v


def reference_run(spec, cache, plan_path=None, attempts=None, worker="debug", xs=None, **kw):
    """The same workflow under the sequential debug worker in this (non-simulated)
    process.  Returns (status, value, events)."""
    rec = _rt.RecRT()
    old = _rt.RT
    _rt.set_rt(rec)
    env_old = {k: os.environ.get(k) for k in ("VERIF_FAULTPLAN", "VERIF_ATTEMPTS")}
    if plan_path:
        os.environ["VERIF_FAULTPLAN"] = plan_path
    if attempts:
        os.environ["VERIF_ATTEMPTS"] = attempts
    try:
        try:
            out = workload.GenWf(spec=spec, x=X, xs=xs or XS)(cache_root=cache, worker=worker, **kw)
            return "ok", plain(out.out), rec.events
        except Exception as e:  # noqa: BLE001
            return "exc", {"type": type(e).__name__, "msg": str(e), "notes": list(getattr(e, "__notes__", []))}, rec.events
    finally:
        _rt.set_rt(old)
        for k, v in env_old.items():
            if v is None:
                os.environ.pop(k, None)
            else:
                os.environ[k] = v
        os.chdir("/")


def gen_profile(ch, fine_ok=True):
    return {
        "fine": fine_ok and ch.chance(1, 6, "fine"),
        "step_workers": not ch.chance(1, 5, "coarse"),
        "burst_lo": ch.pick([0, 0, 1, 2, 3, 4], "burst_lo"),
        "ctl_interleave_den": ch.pick([2, 4, 8], "ctl_den"),
        "ext_steps_max": ch.pick([1, 2, 4, 8], "ext_max"),
        "timer_bias": ch.pick([2, 3, 6, 50], "timer_bias"),
        "hold_body": ch.pick([0, 0, 2, 3], "hold_body"),
        "n_procs": ch.pick([1, 2, 3, 4, 8], "n_procs"),
        "chunk_ctl_writes": ch.chance(1, 3, "ctl_chunks"),
    }


def sim_run(ch, workdir, spec, prof, *, cache=None, max_concurrent=None, plan_path=None, attempts=None, rerun=False, salt="", submit_kw=None, fault_hook=None, task=None, xs=None):
    """One simulated submission of GenWf(spec) with the cf worker on the SimPool."""
    cache = cache or os.path.join(workdir, "cache")
    os.makedirs(cache, exist_ok=True)
    env = simloop.SimEnv(ch, workdir, n_procs=prof["n_procs"], fine=prof["fine"], uuid_salt=salt, profile=prof, max_calls=prof.get("max_calls", 4_000_000))
    env.fault_hook = fault_hook
    import pydra.engine.submitter as _sub

    env.add_line_probe(_sub, "self.running[job.state_index] = (", "job_seen_running")
    env.add_line_probe(_sub, "self.errored[job.state_index] = self.running.pop(index)[0]", "running_to_errored")
    env.add_line_probe(_sub, "await asyncio.sleep(1)", "stall_branch_entered")
    env.add_line_probe(_sub, "elif job.checksum not in futured:", "futured_checked")
    import pydra.engine.job as _jobmod

    env.add_line_probe(_jobmod, "await asyncio.sleep(self.timeout)", "pydrafilelock_waited")
    e = {}
    if plan_path:
        e["VERIF_FAULTPLAN"] = plan_path
    if attempts:
        e["VERIF_ATTEMPTS"] = attempts
    env.sim.env = e
    kw = dict(submit_kw or {})
    if max_concurrent is not None:
        kw["max_concurrent"] = max_concurrent

    def go():
        t = task if task is not None else workload.GenWf(spec=spec, x=X, xs=xs or XS)
        out = t(cache_root=cache, worker="cf", n_procs=prof["n_procs"], rerun=rerun, **kw)
        return plain(out.out)

    status, val = env.run(go)
    return env, status, val


def exec_summary(events):
    """events -> (enters: key -> count, order list of (kind,key), produces: key -> reprs)"""
    enters, produces, order = {}, {}, []
    for _n, d in events:
        if d[0] == "enter":
            enters[d[1]] = enters.get(d[1], 0) + 1
            produces[d[1]] = d[3] if len(d) > 3 else ()
        if d[0] in ("enter", "exit", "fail"):
            order.append((d[0], d[1]))
    return enters, order, produces


def overlap_stats(order):
    """max number of bodies executing at once, and whether any two overlapped"""
    cur, mx = 0, 0
    for kind, _k in order:
        if kind == "enter":
            cur += 1
            mx = max(mx, cur)
        else:
            cur -= 1
    return mx


def consumed(key, produces_all):
    """keys of the producers whose token appears in `key`'s inputs"""
    tail = key.split("|", 1)[1] if "|" in key else ""
    out = set()
    for pk, reprs in produces_all.items():
        if pk == key:
            continue
        for r in reprs:
            if r in tail:
                out.add(pk)
                break
    return out


def node_of_key(key):
    return key.split("|", 1)[0]


def top_node(label):
    """top-level workflow node a job label belongs to (nested specs use '<name>i<k>')"""
    if label.startswith("dwi"):
        return "dw0"
    if label == "cx":
        return "cx"
    return label.split("i", 1)[0]


def names_of_label(spec, label):
    out = [nd["name"] for nd in spec["nodes"] if nd["label"] == label]
    for nd in spec["nodes"]:
        if nd["kind"] == "wf":
            out += names_of_label(nd["sub"], label)
    return out

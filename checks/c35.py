"""C35 — the job lifecycle leaves the process and the cache directory consistent.

fault_enumeration: for every scenario a dry run records the ordered list of fallible
seam calls on the job path (user hooks, task body, messenger sends, mkdir / rmtree /
chdir / unlink / lock creation / every write() of every file); then, for every index,
the run is repeated with an exception raised at exactly that call.
"""

from __future__ import annotations

import builtins
import errno
import hashlib
import io
import json
import os
import shutil

import cloudpickle as cp

from simlib import lockstep, workload
from simlib import rt as _rt
from simlib.driver import blank_result, violation

PROP = "C35"
LEVEL = "fault_enumeration"
ENGINE = "histsim"
FRESH_SELFTEST = True
RULE = (
    "cases = for each scenario (fresh success, failing body, cache hit, rerun over a cached result, two-node workflow; "
    "each with and without PROV auditing through a messenger) every fallible seam call of the job path, in order, as "
    "recorded by a dry run -> an exception is raised at exactly that call (user exception for hooks and messenger, "
    "OSError(ENOSPC) for file-system calls); plus Chooser-generated histories of 3-7 cached/uncached/failing/rerun "
    "submissions with counting hooks and no fault.  Non-trivial = the fault fired after the job lock was taken (fault "
    "cases) or the history contains a cache hit and an execution (history cases); distinct = distinct (scenario, seam "
    "call) / history digest."
)
COMPONENTS = {
    "real": ["Job.run (try/finally, chdir, info file, save)", "Job._populate_filesystem", "save / record_error", "Audit.start_audit/finalize_audit/audit_task", "TaskHooks", "Submitter.__call__", "DebugWorker", "filelock.SoftFileLock", "tmpfs"],
    "stub": ["fault source -> wrappers around os.mkdir, shutil.rmtree, os.chdir, os.unlink, os.open(lock), open()/write() for paths under the cache root; user hooks; Messenger.send"],
}
ASSUMPTIONS = [
    "one relaxation: the target of the faulted operation itself may be missing/left (a failed write of F may leave F torn, a failed unlink of F leaves F, a failed chdir back leaves the cwd, a save() whose lock could not be created leaves its files unwritten)",
    "faults are not injected into the removal of lock files (filelock's own release path suppresses them by design)",
    "sequential debug worker in one process; the async path shares the same structure (run_async) and is exercised for workflows",
]
PROBES = ["fault_in_write", "fault_in_hook", "fault_in_messenger", "fault_other_io", "cache_hit_no_hooks"]
SCENARIOS = ["fresh", "failing", "hit", "rerun", "wf", "fresh+audit", "failing+audit", "rerun+audit"]
NHIST = {"quick": 120, "thorough": 3000}


class InjectedHookError(Exception):
    pass


class Seams:
    def __init__(self, root):
        self.root = root
        self.calls = []
        self.fail_at = None
        self.fired = None
        self.active = False

    def hit(self, name, detail, kind="io"):
        if not self.active:
            return
        idx = len(self.calls)
        self.calls.append((name, detail))
        if self.fail_at is not None and idx == self.fail_at:
            self.fired = (name, detail)
            self.active = False  # single fault
            if kind == "io":
                raise OSError(errno.ENOSPC, f"injected ENOSPC at {name}({detail})")
            raise InjectedHookError(f"injected failure in {name}({detail})")

    def under(self, path):
        try:
            p = os.fspath(path)
        except TypeError:
            return None
        if isinstance(p, bytes):
            p = p.decode()
        if not isinstance(p, str):
            return None
        if not os.path.isabs(p):
            p = os.path.join(os.getcwd(), p)
        if p.startswith(self.root):
            return _norm(os.path.relpath(p, self.root))
        return None


def _norm(rel):
    """stable names: checksums and uids vary with nothing here, but keep labels short"""
    parts = []
    for seg in rel.split("/"):
        if seg.endswith("_info.json"):
            seg = "<uid>_info.json"
        parts.append(seg)
    return "/".join(parts)


class _WFile:
    def __init__(self, raw, seams, rel):
        self._raw, self._s, self._rel = raw, seams, rel

    def write(self, data):
        self._s.hit("write", self._rel)
        return self._raw.write(data)

    def __getattr__(self, n):
        return getattr(self._raw, n)

    def __enter__(self):
        return self

    def __exit__(self, *a):
        self._raw.close()
        return False


class patched:
    """install the seam wrappers (context manager)"""

    def __init__(self, seams):
        self.s = seams

    def __enter__(self):
        s = self.s
        self.saved = (os.mkdir, shutil.rmtree, os.chdir, os.unlink, builtins.open, io.open, os.open)
        r_mkdir, r_rmtree, r_chdir, r_unlink, r_open, _, r_osopen = self.saved

        def mkdir(path, mode=0o777, *, dir_fd=None):
            rel = s.under(path)
            if rel is not None:
                s.hit("mkdir", rel)
            return r_mkdir(path, mode, dir_fd=dir_fd)

        def rmtree(path, *a, **k):
            rel = s.under(path)
            if rel is not None:
                s.hit("rmtree", rel)
            return r_rmtree(path, *a, **k)

        def chdir(path):
            rel = s.under(path)
            s.hit("chdir", rel if rel is not None else "<back>")
            return r_chdir(path)

        def unlink(path, *, dir_fd=None):
            rel = s.under(path)
            if rel is not None and not rel.endswith(".lock"):
                s.hit("unlink", rel)
            return r_unlink(path, dir_fd=dir_fd)

        def open_(file, mode="r", *a, **k):
            rel = s.under(file) if not isinstance(file, int) else None
            if rel is not None and isinstance(mode, str) and ("w" in mode or "a" in mode or "x" in mode):
                s.hit("open-w", rel)
                return _WFile(r_open(file, mode, *a, **k), s, rel)
            return r_open(file, mode, *a, **k)

        def osopen(path, flags, mode=0o777, *, dir_fd=None):
            rel = s.under(path)
            if rel is not None and flags & os.O_CREAT and rel.endswith(".lock"):
                s.hit("lock-create", rel)
            return r_osopen(path, flags, mode, dir_fd=dir_fd)

        os.mkdir, shutil.rmtree, os.chdir, os.unlink = mkdir, rmtree, chdir, unlink
        builtins.open = io.open = open_
        os.open = osopen
        return self

    def __exit__(self, *a):
        os.mkdir, shutil.rmtree, os.chdir, os.unlink, builtins.open, io.open, os.open = self.saved
        return False


def _make_hooks(seams, log):
    from pydra.engine.hooks import TaskHooks

    def mk(name):
        def hook(job, *a):
            log.append((name, job.name))
            seams.hit("hook", name, kind="user")

        return hook

    return TaskHooks(pre_run=mk("pre_run"), pre_run_task=mk("pre_run_task"), post_run_task=mk("post_run_task"), post_run=mk("post_run"))


def _make_messenger(seams):
    from pydra.utils.messenger import Messenger

    class CountingMessenger(Messenger):
        n = 0

        def send(self, message, **kwargs):
            CountingMessenger.n += 1
            seams.hit("messenger.send", f"#{CountingMessenger.n}", kind="user")

    return CountingMessenger()


def _task(scen):
    base = scen.split("+")[0]
    if base == "wf":
        return workload.Chain2(x=3), {"out": 9}
    return workload.Planned(x=3, tag="always" if base == "failing" else "ok"), {"out": 9}


def _submit(scen, cache, seams, hooklog, rerun=False, env=None):
    """one submission with hooks (+ audit) installed; returns (status, value)"""
    from pydra.engine.submitter import Submitter
    from pydra.utils.messenger import AuditFlag

    task, _ = _task(scen)
    audit = "+audit" in scen
    kw = {}
    if audit:
        kw = {"audit_flags": AuditFlag.PROV, "messengers": _make_messenger(seams)}
    hooks = _make_hooks(seams, hooklog)
    saved = {k: os.environ.get(k) for k in (env or {})}
    os.environ.update(env or {})
    rec = _rt.SoloRT(limit=120.0)
    old = _rt.RT
    _rt.install(rec)
    _rt._uuid_counter[0] = 0
    try:
        try:
            with Submitter(cache_root=cache, worker="debug", **kw) as sub:
                r = sub(task, hooks=hooks, rerun=rerun)
            if r.errored:
                return "exc", {"type": "errored-result", "msg": "result.errored"}, rec.events
            return "ok", {"out": r.outputs.out}, rec.events
        except BaseException as e:  # noqa: BLE001
            if type(e).__name__ == "WallTimeout":
                raise
            if rec.hung:
                return "hang", {"type": "SimHang", "msg": f"slept {rec.slept:.0f} simulated s"}, rec.events
            return "exc", {"type": type(e).__name__, "msg": str(e)[:300]}, rec.events
    finally:
        _rt.set_rt(old if old is not None else _rt.NullRT())
        for k, v in saved.items():
            if v is None:
                os.environ.pop(k, None)
            else:
                os.environ[k] = v


def _setup(scen, workdir):
    cache = os.path.join(workdir, "cache")
    os.makedirs(cache, exist_ok=True)
    plan = os.path.join(workdir, "plan.json")
    with open(plan, "w") as f:
        json.dump({workload._key("Planned", 3, "always"): "raise"}, f)
    env = {"VERIF_FAULTPLAN": plan}
    base = scen.split("+")[0]
    if base in ("hit", "rerun"):
        s0 = Seams(cache)
        st, _v, _e = _submit("fresh", cache, s0, [], env=env)
        assert st == "ok"
    return cache, env


def dry_calls(scen):
    wd = os.path.join("/dev/shm/pv", f"c35{os.getpid() % 100000:05d}{abs(hash(scen)) % 100000:05d}")
    shutil.rmtree(wd, ignore_errors=True)
    os.makedirs(wd)
    try:
        cache, env = _setup(scen, wd)
        s = Seams(cache)
        with patched(s):
            s.active = True
            _submit(scen, cache, s, [], rerun=scen.startswith("rerun"), env=env)
            s.active = False
        return list(s.calls)
    finally:
        os.chdir("/")
        shutil.rmtree(wd, ignore_errors=True)
        lockstep.reset_state()


def plan(tier, seed):
    cases = []
    for scen in SCENARIOS:
        calls = dry_calls(scen)
        for i, (name, detail) in enumerate(calls):
            cases.append({"id": f"{scen}-{i}", "kind": "fault", "scen": scen, "at": i, "n": len(calls), "call": f"{name}({detail})"})
    for i in range(NHIST.get(tier, 120)):
        cases.append({"id": f"hist-{i}", "kind": "hist", "i": i})
    return cases


def _check_state(res, sig, cache, cwd0, fired, ctx, expect_errored):
    if os.getcwd() != cwd0:
        # the chdir back itself was the faulted operation: its own effect may be missing
        if not (fired and fired[0] == "chdir" and fired[1] == "<back>"):
            violation(res, "cwd-not-restored", sig, f"cwd is {os.getcwd()!r}, was {cwd0!r}; {ctx}")
        os.chdir(cwd0)
    names = sorted(os.listdir(cache))
    ftarget = fired[1] if fired else ""
    for n in names:
        if n.endswith("_info.json") and not (fired and ftarget == "<uid>_info.json"):
            violation(res, "info-file-left", sig, f"{n} remains in the cache root; {ctx}")
        if n.endswith(".lock") and not n.endswith("_save.lock") and not (fired and ftarget.endswith(".lock")):
            violation(res, "lock-left", sig, f"{n} remains in the cache root; {ctx}")
    for n in names:
        d = os.path.join(cache, n)
        if not os.path.isdir(d) or not (n.startswith("python-") or n.startswith("workflow-")):
            continue
        for fname in ("_job.pklz", "_result.pklz"):
            if fired and ftarget == f"{n}/{fname}":
                continue
            if fired and ftarget == f"{n}_save.lock":
                continue  # the save() call that writes these files was itself the faulted operation
            p = os.path.join(d, fname)
            try:
                with open(p, "rb") as f:
                    obj = cp.load(f)
            except Exception as e:  # noqa: BLE001
                violation(res, "record-missing", sig, f"{n}/{fname} is not loadable ({type(e).__name__}) after the run; {ctx}")
                continue
            if fname == "_result.pklz" and expect_errored is not None and n.startswith("python-" if not sig.startswith("wf") else "workflow-"):
                if bool(obj.errored) != expect_errored and not sig.startswith("wf"):
                    violation(res, "errored-flag-mismatch", sig, f"{n}/_result.pklz has errored={obj.errored}, expected {expect_errored}; {ctx}")


def run_case(case, ch, workdir):
    res = blank_result()
    probes = res["probes"]
    cwd0 = os.getcwd()
    try:
        if case["kind"] == "fault":
            scen = case["scen"]
            cache, env = _setup(scen, workdir)
            s = Seams(cache)
            s.fail_at = case["at"]
            hooklog = []
            with patched(s):
                s.active = True
                status, val, events = _submit(scen, cache, s, hooklog, rerun=scen.startswith("rerun"), env=env)
                s.active = False
            res["sample"] = {"scenario": scen, "fault_at": case["call"], "index": case["at"], "of": case["n"], "status": status}
            res["digest"] = hashlib.sha256(repr((scen, case["at"], case["call"])).encode()).hexdigest()[:20]
            if s.fired is None:
                res["harness_error"] = f"fault {case['call']} at index {case['at']} never fired (calls={len(s.calls)})"
                return res
            res["faults"][s.fired[0]] = 1
            res["fault_trace"].append(f"raise at seam call {case['at']}: {s.fired[0]}({s.fired[1]})")
            name = s.fired[0]
            probes["fault_in_hook" if name == "hook" else "fault_in_messenger" if name == "messenger.send" else "fault_in_write" if name in ("write", "open-w") else "fault_other_io"] = 1
            lock_taken = any(c[0] == "lock-create" and not c[1].endswith("_save.lock") for c in s.calls[: case["at"]])
            res["nontrivial"] = lock_taken
            sig = scen
            ctx = f"scenario {scen}, exception injected at call {case['at']}/{case['n']} {case['call']}; submission -> {status} {val.get('type', '') if isinstance(val, dict) else ''}"
            if status == "hang":
                violation(res, "hang-after-fault", sig, f"the submission never returned ({val['msg']}); {ctx}")
            body_ran = any(d[0] == "enter" for _n, d in events)
            body_failed = any(d[0] == "fail" for _n, d in events)
            # the stored flag must say "errored" whenever the body itself failed
            expect_errored = True if body_failed else None
            _check_state(res, sig, cache, cwd0, s.fired, ctx, expect_errored)
            # hooks: exactly once per execution, never for a hit
            npre = sum(1 for h in hooklog if h[0] == "pre_run_task" and h[1] == "main")
            npost = sum(1 for h in hooklog if h[0] == "post_run_task" and h[1] == "main")
            if body_ran and not scen.startswith("wf"):
                if npre != 1 and not (name == "hook" and s.fired[1] == "pre_run_task"):
                    violation(res, "hook-count", sig, f"pre_run_task called {npre} times for one execution; {ctx}")
                if npost != 1 and not (name == "hook" and s.fired[1] == "post_run_task"):
                    violation(res, "hook-count", sig, f"post_run_task called {npost} times for one execution; {ctx}")
        else:
            _history(case, ch, workdir, res, cwd0)
    finally:
        try:
            os.chdir(cwd0)
        except OSError:
            os.chdir("/")
        lockstep.reset_state()
    return res


def _history(case, ch, workdir, res, cwd0):
    cache = os.path.join(workdir, "cache")
    os.makedirs(cache)
    plan = os.path.join(workdir, "plan.json")
    with open(plan, "w") as f:
        json.dump({workload._key("Planned", 3, "always"): "raise", workload._key("Planned", 3, "once"): "raise_once"}, f)
    attempts = os.path.join(workdir, "attempts")
    os.makedirs(attempts)
    env = {"VERIF_FAULTPLAN": plan, "VERIF_ATTEMPTS": attempts}
    from pydra.engine.submitter import Submitter

    s = Seams(cache)
    history = []
    hsh = hashlib.sha256()
    stored = set()
    probes = res["probes"]
    for op in range(ch.randint(3, 7, "nops")):
        tag = ch.pick(["ok", "ok", "always", "once"], "tag")
        rerun = ch.chance(1, 4, "rerun")
        task = workload.Planned(x=3, tag=tag)
        hooklog = []
        hooks = _make_hooks(s, hooklog)
        rec = _rt.SoloRT(limit=120.0)
        old = _rt.RT
        _rt.install(rec)
        saved = {k: os.environ.get(k) for k in env}
        os.environ.update(env)
        try:
            try:
                with Submitter(cache_root=cache, worker="debug") as sub:
                    r = sub(task, hooks=hooks, rerun=rerun)
                status = "errored" if r.errored else "ok"
            except BaseException as e:  # noqa: BLE001
                if type(e).__name__ == "WallTimeout":
                    raise
                status = "exc:" + type(e).__name__
        finally:
            _rt.set_rt(old if old is not None else _rt.NullRT())
            for k, v in saved.items():
                if v is None:
                    os.environ.pop(k, None)
                else:
                    os.environ[k] = v
        nexec = sum(1 for _n, d in rec.events if d[0] == "enter")
        npre = sum(1 for h in hooklog if h[0] == "pre_run_task")
        npost = sum(1 for h in hooklog if h[0] == "post_run_task")
        history.append(f"{tag}{'!' if rerun else ''}:{status}:exec={nexec}")
        hsh.update(repr((tag, rerun, status, nexec)).encode())
        ctx = f"op {op} of history {history}"
        sig = "hist"
        if npre != nexec or npost != nexec:
            violation(res, "hook-count", sig, f"{nexec} body execution(s) but pre_run_task x{npre}, post_run_task x{npost}; {ctx}")
        if nexec == 0:
            probes["cache_hit_no_hooks"] = probes.get("cache_hit_no_hooks", 0) + 1
        _check_state(res, sig, cache, cwd0, None, ctx, None)
        if status == "ok":
            stored.add(tag)
    res["digest"] = hsh.hexdigest()[:20]
    res["sample"] = {"history": history}
    res["nontrivial"] = any("exec=0" in h for h in history) and any("exec=1" in h for h in history)


def summarize(cases, results):
    return {"exhaustive": True, "exhaustive_scope": "every recorded seam call of every scenario (the fault-free histories are sampled)", "seam_calls_per_scenario": {s: sum(1 for c in cases if c.get("scen") == s) for s in SCENARIOS}}

"""C17 — workflow results do not depend on worker or schedule (differential)."""

from __future__ import annotations

import os

from checks import wfcommon as wc
from simlib import wfgen
from simlib.driver import blank_result, violation

PROP = "C17"
LEVEL = "exploration"
ENGINE = "simloop"
RULE = (
    "case = (generated workflow w incl. splits/combines/nesting/duplicate identities) x (seeded schedule s: pool "
    "size 1-8, max_concurrent 1..n or unlimited, worker bursts, controller-line interleaving, delayed future "
    "delivery, early timers); oracle = outputs structurally equal to the debug-worker reference (or both fail). "
    "Non-trivial = reference succeeded, >= 3 jobs, >= 2 pool workers used; distinct = distinct step/event digest."
)
COMPONENTS = {
    "real": ["Submitter (sync and async loops)", "DebugWorker", "ConcurrentFuturesWorker", "NodeExecution", "Job.run/run_async", "Workflow.construct/State", "LazyField resolution", "cloudpickle of jobs and results"],
    "stub": ["selector event loop -> SimLoop (virtual time)", "ProcessPoolExecutor -> SimPool of lockstep actors", "OS scheduler -> seeded controller"],
}
ASSUMPTIONS = ["agreement with a reference semantics of the state algebra is NOT claimed (that is C03, not a simulation target); only schedule/worker independence"]
PROBES = ["bodies_overlapped", "job_seen_running", "limited_concurrency", "nested_wf", "split_jobs"]
NWF = {"quick": 60, "thorough": 900}
NSCHED = {"quick": 5, "thorough": 12}


def plan(tier, seed):
    return [{"id": f"w{w}s{s}", "w": w, "s": s} for w in range(NWF.get(tier, 60)) for s in range(NSCHED.get(tier, 5))]


def run_case(case, ch, workdir):
    res = blank_result()
    seed = int(os.environ.get("VERIF_SEED", "0") or 0)
    spec, _ = wc.spec_for(seed, 1000 + case["w"])
    desc = wfgen.describe(spec)
    rstat, rval, revents = wc.reference_run(spec, os.path.join(workdir, "refcache"))
    renters, rorder, rprod = wc.exec_summary(revents)
    prof = wc.gen_profile(ch)
    njobs = max(1, len(renters))
    mc = ch.pick([None, None, 1, 2, 3, njobs], "max_concurrent")
    env, status, val = wc.sim_run(ch, workdir, spec, prof, salt=case["id"], max_concurrent=mc)
    try:
        sim = env.sim
        enters, order, prod = wc.exec_summary(sim.events)
        res["steps"] = sim.steps
        res["sim_s"] = sim.now - 1_700_000_000.0
        res["digest"] = sim.digest()
        res["sample"] = {"workflow": desc, "reference": rstat, "jobs": len(renters), "n_procs": prof["n_procs"], "max_concurrent": mc, "status": status}
        if wc.overlap_stats(order) > 1:
            sim.probe("bodies_overlapped")
        if mc is not None:
            sim.probe("limited_concurrency")
        if any(nd["kind"] == "wf" for nd in spec["nodes"]):
            sim.probe("nested_wf")
        if any(nd.get("split") for nd in spec["nodes"]):
            sim.probe("split_jobs")
        res["nontrivial"] = rstat == "ok" and len(renters) >= 3 and env.pool.nworkers >= 2
        sig = "gen"
        if status == "hang":
            violation(res, "no-termination", sig, f"simulated submission did not terminate: {val} (workflow: {desc})")
        elif rstat == "ok" and status != "ok":
            violation(res, "fails-only-under-pool", sig, f"debug worker succeeded, cf schedule raised {val.get('type')}: {(val.get('msg', '')[:400] + ' ... ' + val.get('msg', '')[-700:])} (workflow: {desc}, n_procs={prof['n_procs']}, max_concurrent={mc})")
        elif rstat != "ok" and status == "ok":
            violation(res, "fails-only-under-debug", sig, f"cf schedule succeeded, debug worker raised {rval['type']}: {rval['msg'][:300]} (workflow: {desc})")
        elif rstat == "ok" and val != rval:
            violation(res, "outputs-differ", sig, f"debug={str(rval)[:300]} cf={str(val)[:300]} (workflow: {desc}, n_procs={prof['n_procs']}, max_concurrent={mc})")
        res["faults"] = dict(sim.faults)
        res["probes"] = dict(sim.probes)
    finally:
        env.close()
    return res

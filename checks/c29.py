"""C29 — jobs and results survive serialization to worker processes (sessim)."""

from __future__ import annotations

import hashlib
import json
import os

from checks import c07
from checks import wfcommon as wc
from simlib.driver import blank_result, violation

PROP = "C29"
LEVEL = "exploration"
ENGINE = "sessim"
FRESH_SELFTEST = False
RULE = (
    "case = ~10 (task, submitter configuration) pairs: task from {Describe(generated value incl. sets/dicts/numpy), "
    "closure task pickled by value, xor-group task, two-output task, generated workflow}; submitter with worker in "
    "{debug, cf(n_procs), slurm(sbatch_args, poll_delay), sge(qsub_args, ...)}, optional read-only caches, audit flags, "
    "max_concurrent, propagate_rerun, task hooks that log their calls.  Session A (fresh interpreter) builds the Job, records checksum + public state, "
    "cloudpickles it and runs the same task in-session for reference; session B (other PYTHONHASHSEED) unpickles it, "
    "compares checksum/state and runs it through load_and_run; session C (third hash seed) reads the result file back.  "
    "Every job of the simloop checks additionally crosses cp.dumps -> worker process -> result file -> parent.  "
    "Non-trivial = the job carries a container value, a by-value function or a workflow; distinct = distinct specs."
)
COMPONENTS = {
    "real": ["Job.__getstate__/__setstate__", "Submitter.__getstate__/__setstate__", "Worker/ConcurrentFuturesWorker/SlurmWorker/SgeWorker __getstate__/__setstate__", "Result.__getstate__/__setstate__", "load_and_run / load_job", "cloudpickle", "real interpreters with different hash seeds"],
    "stub": ["nothing inside a session"],
}
ASSUMPTIONS = ["'equal public state' = worker type and its attrs fields (minus loop/pool/internal dicts), submitter cache_root/readonly_caches/max_concurrent/propagate_rerun/clean_stale_locks/audit flags, names of the four job hooks"]
PROBES = ["numpy_audited", "hooks_installed", "by_value_function", "workflow_job", "slurm_config", "sge_config", "cf_config", "readonly_caches", "audit_on"]
N = {"quick": 16, "thorough": 300}
JOBS = 2
CASE_WALL = 300
SHRINK_BUDGET = 2  # every re-execution costs three interpreter sessions


def plan(tier, seed):
    return [{"id": f"p{i}", "i": i} for i in range(N.get(tier, 8))]


def run_case(case, ch, workdir):
    res = blank_result()
    probes = res["probes"]

    def probe(n):
        probes[n] = probes.get(n, 0) + 1

    seed = int(os.environ.get("VERIF_SEED", "0") or 0)
    ro = os.path.join(workdir, "ro1")
    os.makedirs(ro)
    dump_steps, load_steps = [], []
    descs = {}
    for i in range(10):
        tk = ch.pick(["describe", "describe", "closure", "xor", "two", "wf"], "task")
        if tk == "describe":
            tspec = {"kind": "describe", "value": c07.gen_value(ch)}
            nontriv = "multi" in c07.features(tspec["value"])
        elif tk == "closure":
            tspec = {"kind": "closure", "k": ch.choose(5, "k"), "x": ch.choose(5, "x")}
            nontriv = True
            probe("by_value_function")
        elif tk == "xor":
            tspec = {"kind": "xor", "a": 1 + ch.choose(5, "a"), "c": ch.choose(5, "c")}
            nontriv = False
        elif tk == "two":
            tspec = {"kind": "two", "x": ch.choose(9, "x")}
            nontriv = False
        else:
            spec, _ = wc.spec_for(seed, 8000 + case["i"] * 16 + i, max_nodes=4, nested=False)
            # generated graphs that pydra rejects (identically under every configuration)
            # are not serialization cases
            rstat, _rv, _re = wc.reference_run(spec, os.path.join(workdir, f"probe{i}"))
            if rstat == "ok":
                tspec = {"kind": "wf", "spec": spec}
                nontriv = True
                probe("workflow_job")
            else:
                tspec = {"kind": "two", "x": ch.choose(9, "x")}
                nontriv = False
        wk = ch.pick(["debug", "debug", "cf", "slurm", "sge"], "worker") if tk != "wf" else "debug"
        sub = {"worker": wk}
        if wk == "cf":
            sub["n_procs"] = ch.randint(1, 4, "n_procs")
            probe("cf_config")
        elif wk == "slurm":
            sub["sbatch_args"] = ch.pick(["", "-N1", "-J name --no-requeue"], "sbatch")
            sub["poll_delay"] = ch.randint(0, 5, "poll")
            probe("slurm_config")
        elif wk == "sge":
            sub["qsub_args"] = ch.pick(["", "-pe smp 2"], "qsub")
            sub["max_threads"] = ch.pick([None, 4], "maxthr")
            sub["poll_for_result_file"] = bool(ch.choose(2, "pfr"))
            probe("sge_config")
        if ch.chance(1, 3, "ro"):
            sub["readonly_caches"] = [ro]
            probe("readonly_caches")
        if ch.chance(1, 4, "audit"):
            sub["audit"] = True
            probe("audit_on")
        if ch.chance(1, 3, "mc"):
            sub["max_concurrent"] = ch.randint(1, 4, "mc")
        if ch.chance(1, 4, "prop"):
            sub["propagate_rerun"] = False
        if i == 0:
            # every case carries one job whose input is a numpy array and whose submitter has
            # auditing switched on (array-valued inputs meet every code path that looks at
            # input values: hashing, auditing, pickling)
            tk = "describe"
            tspec = {"kind": "describe", "value": {"t": "nd", "dtype": ch.pick(["int64", "float32", "uint8"], "dtype"), "shape": [2, 2], "data": [ch.choose(5, "nd") for _ in range(4)]}}
            nontriv = True
            sub["audit"] = True
            probe("numpy_audited")
        hooks = tk != "wf" and ch.chance(1, 2, "hooks")
        if hooks:
            probe("hooks_installed")
        sid = f"j{i}"
        pkl = os.path.join(workdir, f"{sid}.pkl")
        descs[sid] = (tspec, sub, nontriv)
        dump_steps.append({"id": sid, "kind": "job-dump", "task": tspec, "submitter": sub, "cache": os.path.join(workdir, "cacheA"), "refcache": os.path.join(workdir, "refcache"), "pkl": pkl, "hooks": hooks})
        load_steps.append({"id": sid, "kind": "job-load-run", "pkl": pkl, "hooks": hooks})
    seeds = [ch.randint(1, 4000, "hsA"), ch.randint(4001, 8000, "hsB"), ch.pick([0, 9, 31337], "hsC")]
    outA = c07.run_session(workdir, 0, seeds[0], perm=5, steps=dump_steps, evlog=None)
    outB = c07.run_session(workdir, 1, seeds[1], perm=5, steps=load_steps, evlog=None)
    byA = {r["id"]: r for r in outA["results"]}
    byB = {r["id"]: r for r in outB["results"]}
    rsteps = [{"id": sid, "kind": "result-load", "result_dir": byB[sid]["result_dir"]} for sid in byB if "result_dir" in byB[sid]]
    outC = c07.run_session(workdir, 2, seeds[2], perm=5, steps=rsteps, evlog=None)
    byC = {r["id"]: r for r in outC["results"]}
    res["digest"] = hashlib.sha256(json.dumps([[descs[s][0], descs[s][1]] for s in sorted(descs)], sort_keys=True).replace(workdir, "$W").encode()).hexdigest()[:20]
    res["sample"] = {"hashseeds": seeds, "jobs": [{"task": descs[s][0]["kind"], "submitter": descs[s][1]} for s in sorted(descs)][:4]}
    nt = 0
    for sid, (tspec, sub, nontriv) in descs.items():
        a, b, c = byA.get(sid, {}), byB.get(sid, {}), byC.get(sid, {})
        nt += bool(nontriv)
        sig = f"{tspec['kind']}/{sub['worker']}"
        ctx = f"task={json.dumps(tspec)[:250]} submitter={sub} hashseeds={seeds}"
        if "error" in a:
            violation(res, "cannot-serialize", sig, f"session A: {a['error']}; {ctx}")
            continue
        if "ref_error" in a:
            # the task fails under this configuration even without any serialization
            # (then it has to fail after the round trip as well)
            if "error" not in b and not b.get("errored"):
                violation(res, "outputs-differ", sig, f"in-session run failed ({a['ref_error']}) but the deserialized job returned {b.get('out')}; {ctx}")
            continue
        if "error" in b:
            violation(res, "cannot-run-deserialized", sig, f"session B: {b['error']} {b.get('tb', '')[-300:]}; {ctx}")
            continue
        if a["checksum"] != b["checksum"]:
            violation(res, "identity-changed", sig, f"checksum {a['checksum']} in the building session, {b['checksum']} after unpickling in another process; {ctx}")
        if a["state"] != b["state"]:
            diff = {k: (a["state"][k], b["state"][k]) for k in a["state"] if a["state"][k] != b["state"].get(k)}
            violation(res, "state-changed", sig, f"submitter/worker state differs after the round trip: {diff}; {ctx}")
        if b.get("errored") or a["out"] != b["out"]:
            violation(res, "outputs-differ", sig, f"in-session run gave {a['out']}, deserialized job gave {b.get('out')} (errored={b.get('errored')}); {ctx}")
        if "hooks_called" in a and a["hooks_called"] != b.get("hooks_called"):
            violation(res, "hooks-differ", sig, f"hooks called for this job in the building session: {a['hooks_called']}, by the deserialized job in another process: {b.get('hooks_called')}; {ctx}")
        if "error" in c:
            violation(res, "result-unreadable", sig, f"session C: {c['error']}; {ctx}")
        elif c:
            if c["out"] != b["out"] or c["errored"] != b["errored"]:
                violation(res, "result-differs", sig, f"result written by session B reads back as {c['out']} (errored={c['errored']}), B had {b['out']}; {ctx}")
            if c.get("checksum") and c["checksum"] != a["checksum"]:
                violation(res, "identity-changed", sig, f"job stored with the result has checksum {c['checksum']}, built as {a['checksum']}; {ctx}")
    res["nontrivial"] = nt >= 2
    return res
